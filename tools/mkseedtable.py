#!/usr/bin/env python3
"""Regenerate the seeds table in DESIGN.md (between the markers) from seeded/RESULTS.json and the seed metas."""
import json, os, re
os.chdir(os.path.dirname(os.path.dirname(os.path.abspath(__file__))))
res = json.load(open("seeded/RESULTS.json"))
rows = []
det = 0
for s in sorted(d for d in os.listdir("seeded") if os.path.isfile(f"seeded/{d}/meta.json")):
    m = json.load(open(f"seeded/{s}/meta.json"))
    what = (m.get("breaks") or m.get("summary") or m.get("description") or "").replace("\n", " ").replace("|", "/")
    files = ", ".join(os.path.basename(f) for f in m.get("files_touched", []))
    r = res.get(s, {})
    by = ", ".join(r.get("detected_by", []))
    lines = []
    for p in r.get("detected_by", []):
        for l in r.get("detail", {}).get(p, {}).get("lines", []):
            if l.startswith("failed obligation"):
                lines.append(l[len("failed obligation: "):].split(" (")[0])
    if by:
        det += 1
    why = ""
    if not by:
        why = r.get("detail", {}).get("apply", "") or ("no claimed check covers it" if not r.get("checked_by") else "not caught")
    rows.append(f"| {s} | {files} | {what[:230]} | {by or '—'} | {'; '.join(lines[:2])[:160] or why} |")
block = ["<!-- seeds:begin -->", f"{det} of {len(rows)} seeded changes are caught by a registered check (exit 1 with a VIOLATION line); no check alarms on the unchanged tree.", "",
         "| seed | file | what it breaks | caught by | first failing obligations / why not |", "|---|---|---|---|---|"] + rows + ["<!-- seeds:end -->"]
t = open("DESIGN.md").read()
if "<!-- seeds:begin -->" in t:
    t = re.sub(r"<!-- seeds:begin -->.*<!-- seeds:end -->", "\n".join(block).replace("\\", "\\\\"), t, flags=re.S)
else:
    t += "\n" + "\n".join(block) + "\n"
open("DESIGN.md", "w").write(t)
print(det, "of", len(rows))
