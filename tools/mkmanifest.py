#!/usr/bin/env python3
"""Regenerate MANIFEST.json from props/*.json (claimed checks) and tools/na.json (not-applicable reasons)."""
import json, glob, os, subprocess
os.chdir(os.path.dirname(os.path.abspath(__file__)) + "/..")
props = [json.loads(l) for l in open("properties.jsonl")]
ids = [p["id"] for p in props]
claimed = {}
for f in sorted(glob.glob("props/*.json")):
    c = json.load(open(f))
    if c.get("registered", True):
        claimed[c["id"]] = c
na = json.load(open("tools/na.json"))
hooks = subprocess.run(["git", "-C", "/repo", "log", "--format=%H %s"], capture_output=True, text=True).stdout.splitlines()
hook_commits = [l.split()[0] for l in hooks if " verif:" in l or l.split(" ", 1)[1].startswith("verif")]
checks = []
for pid in ids:
    if pid not in claimed:
        continue
    c = claimed[pid]
    level = c.get("level", "proof")
    checks.append({
        "property_id": pid,
        "quick_cmd": f"./check {pid} --tier quick",
        "thorough_cmd": f"./check {pid} --tier thorough",
        "evidence_file": f"/verif/evidence/{pid}.json",
        "replay_cmd_template": "./check " + pid + " --replay {path}",
        "engine": "govc",
        "level_claimed": {"category": level, "text": c.get("level_text", ""), "design_ref": c.get("design_ref", "DESIGN.md section 6 (plan) and section 11.6 (as built), " + pid)},
        "level_note": c.get("level_note", ""),
        "technique": c.get("technique", "contract-based deductive verification: contracts on the real Go functions, VCs generated from go/ssa, discharged by z3/cvc5"),
    })
m = {
    "version": 1,
    "setup_cmd": "cd /verif && ./setup.sh",
    "hooks": {"guard": "verif", "enable": "-tags verif (zz_contracts_verif.go files: //@ contract comments and ghost lemma procedures; never compiled without the tag)",
              "baseline_off_cmd": "cd /repo && go test -mod=mod -json -vet=off -count=1 -timeout 25m ./...",
              "source_commits": hook_commits, "add_only": True},
    "engines": [{"name": "govc", "path": "/verif/govc", "serves_properties": sorted(claimed),
                 "kind_free_text": "contract-based deductive verifier for Go written here: go/ssa forward symbolic execution with loop invariants and modular contracts -> SMT-LIB verification conditions -> z3 5.1.0 / z3 4.8.12 / cvc5 1.0.3"}],
    "checks": checks,
    "notes": "One technique family: contracts on the real code. See DESIGN.md. Ledger of proved obligations in baseline/ledger/, known findings in KNOWN_FINDINGS.txt.",
    "not_applicable": [{"property_id": pid, "reason": na.get(pid, "check not built yet (see DESIGN.md)")} for pid in ids if pid not in claimed],
}
json.dump(m, open("MANIFEST.json", "w"), indent=1)
print("claimed:", sorted(claimed), "n/a:", [x["property_id"] for x in m["not_applicable"]])
