#!/usr/bin/env python3
"""Run registered checks against confirmed seeded changes: apply patch to /repo, run the checks of the
listed properties (evidence redirected so committed evidence is not clobbered), undo the patch.
usage: run_seeds.py [seed ...]   (default: all under /verif/seeded)   writes seeded/RESULTS.json"""
import json, os, subprocess, sys, glob
VERIF = os.path.dirname(os.path.dirname(os.path.abspath(__file__)))
REPO = os.environ.get("VERIF_REPO", "/repo")
os.chdir(VERIF)
seeds = sys.argv[1:] or sorted(d for d in os.listdir("seeded") if os.path.isfile(f"seeded/{d}/patch.diff"))
claimed = [c["property_id"] for c in json.load(open("MANIFEST.json"))["checks"]]
try:
    results = json.load(open("seeded/RESULTS.json"))
except Exception:
    results = {}
for s in seeds:
    d = f"seeded/{s}"
    prop = s.split("-")[0]
    props = [p for p in dict.fromkeys([prop] + json.load(open(f"{d}/meta.json")).get("also_check", [])) if p in claimed]
    if subprocess.run(["git", "-C", REPO, "status", "--porcelain"], capture_output=True, text=True).stdout.strip():
        print("repo not clean"); sys.exit(3)
    patch = f"{d}/patch.diff"
    if os.path.exists(f"{d}/patch.head.diff"):
        patch = f"{d}/patch.head.diff"   # re-based on the current tree (the original no longer applies after a fix: commit)
    a = subprocess.run(["git", "-C", REPO, "apply", os.path.abspath(patch)], capture_output=True, text=True)
    entry = {"checked_by": props, "detected_by": [], "detail": {}}
    if a.returncode != 0:
        entry["detail"]["apply"] = "patch does not apply to the current tree: " + a.stderr.strip()[:200]
    else:
        for p in props:
            r = subprocess.run(["./check", p, "--tier", "quick", "-evidence", f"{VERIF}/out/seed-evidence-{p}.json"], capture_output=True, text=True)
            viol = [l for l in r.stdout.splitlines() if l.startswith("failed obligation") or l.startswith("VIOLATION")]
            entry["detail"][p] = {"exit": r.returncode, "lines": viol[:6]}
            if r.returncode == 1:
                entry["detected_by"].append(p)
    subprocess.run(["git", "-C", REPO, "checkout", "--", "."]); subprocess.run(["git", "-C", REPO, "clean", "-fdq"])
    results[s] = entry
    print(s, "->", entry["detected_by"] or ("not detected" if props else "property not claimed"), entry["detail"].get("apply", ""))
json.dump(results, open("seeded/RESULTS.json", "w"), indent=1, sort_keys=True)
