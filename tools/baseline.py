#!/usr/bin/env python3
"""Run the pinned test suite in a repo dir and compare with BASELINE.json stable_pass.
usage: baseline.py <repo-dir>   exit 0 iff every stable_pass test passed."""
import json, os, subprocess, sys
repo = sys.argv[1] if len(sys.argv) > 1 else "/repo"
base = json.load(open("/root/.vp/BASELINE.json"))
want = set(base["stable_pass"])
env = dict(os.environ, GOFLAGS="-mod=mod", GOPROXY="off", GOSUMDB="off", GOTOOLCHAIN="local")
p = subprocess.run(["go", "test", "-mod=mod", "-json", "-vet=off", "-count=1", "-timeout", "25m", "./..."],
                   cwd=repo, env=env, capture_output=True, text=True)
passed, failed = set(), set()
for line in p.stdout.splitlines():
    try:
        ev = json.loads(line)
    except Exception:
        continue
    if ev.get("Test") and ev.get("Action") in ("pass", "fail"):
        name = ev["Package"] + "::" + ev["Test"]
        (passed if ev["Action"] == "pass" else failed).add(name)
missing = sorted(want - passed)
print(f"baseline: want={len(want)} passed_of_want={len(want & passed)} failed_total={len(failed)}")
for m in missing[:40]:
    print("  NOT PASSED:", m)
sys.exit(0 if not missing else 1)
