#!/bin/sh
# usage: tryseed.sh <patch.diff> <command...> : apply a seeded change to /repo, run the command, undo the change.
patch="$1"; shift
if [ -n "$(git -C /repo status --porcelain)" ]; then echo "tryseed: /repo not clean" >&2; exit 3; fi
git -C /repo apply "$patch" || { echo "tryseed: patch does not apply" >&2; exit 3; }
"$@"; rc=$?
git -C /repo checkout -- . ; git -C /repo clean -fdq
exit $rc
