#!/usr/bin/env python3
"""Confirm a seeded change produced in a scratch worktree: fresh worktree of /repo HEAD, demo passes, patch applies,
builds, pinned suite still passes (508), demo fails.  On success copy patch.diff, demo, meta.json to /verif/seeded/<name>/.
usage: confirm_seed.py <OUT dir of the agent> <seed name, e.g. C12-3>"""
import json, os, shutil, subprocess, sys
out, name = sys.argv[1], sys.argv[2]
env = dict(os.environ, GOFLAGS="-mod=mod", GOPROXY="off", GOSUMDB="off", GOTOOLCHAIN="local")
meta = json.load(open(f"{out}/meta.json"))
wt = f"/tmp/confirm/{name}"
subprocess.run(["git", "-C", "/repo", "worktree", "remove", "--force", wt], capture_output=True)
os.makedirs("/tmp/confirm", exist_ok=True)
subprocess.run(["git", "-C", "/repo", "worktree", "add", "--detach", wt, "HEAD", "-q"], check=True)
def sh(cmd, **kw):
    return subprocess.run(cmd, shell=True, cwd=wt, env=env, capture_output=True, text=True, **kw)
res = {}
try:
    demo_dir = meta["demo_dir"].strip("./") if meta.get("demo_dir") else "pkg/inline"
    demo_path = os.path.join(wt, demo_dir, "zz_seed_demo_test.go")
    shutil.copy(f"{out}/demo_test.go.txt", demo_path)
    run = meta["demo_run"]
    r = sh(run + " 2>&1 | tail -15", timeout=900)
    res["demo_without_patch"] = "pass" if ("ok " in r.stdout and "FAIL" not in r.stdout) else "fail"
    a = sh(f"git apply {out}/patch.diff")
    res["apply"] = "ok" if a.returncode == 0 else a.stderr[:300]
    b = sh("go build -tags test ./... 2>&1 | tail -5")
    res["build_with_patch"] = "ok" if b.stdout.strip() == "" else b.stdout[:300]
    os.rename(demo_path, demo_path + ".off")
    s = subprocess.run(["python3", "/verif/tools/baseline.py", wt], capture_output=True, text=True, env=env)
    res["baseline_with_patch"] = s.stdout.strip().splitlines()[0] if s.stdout.strip() else s.stderr[:200]
    os.rename(demo_path + ".off", demo_path)
    r2 = sh(run + " 2>&1 | tail -15", timeout=900)
    res["demo_with_patch"] = "fail" if "FAIL" in r2.stdout else "pass"
    res["demo_with_patch_tail"] = r2.stdout[-600:]
finally:
    subprocess.run(["git", "-C", "/repo", "worktree", "remove", "--force", wt], capture_output=True)
ok = res.get("demo_without_patch") == "pass" and res.get("apply") == "ok" and res.get("build_with_patch") == "ok" and \
     "passed_of_want=508" in res.get("baseline_with_patch", "") and res.get("demo_with_patch") == "fail"
print(json.dumps(res, indent=1))
if ok:
    d = f"/verif/seeded/{name}"
    os.makedirs(d, exist_ok=True)
    shutil.copy(f"{out}/patch.diff", f"{d}/patch.diff")
    shutil.copy(f"{out}/demo_test.go.txt", f"{d}/demo_test.go.txt")
    meta["confirmed"] = True
    meta["seed"] = name
    meta["confirmation"] = {k: v for k, v in res.items() if k != "demo_with_patch_tail"}
    meta["ran_on_commit"] = subprocess.run(["git", "-C", "/repo", "rev-parse", "--short", "HEAD"], capture_output=True, text=True).stdout.strip()
    json.dump(meta, open(f"{d}/meta.json", "w"), indent=1)
    print("CONFIRMED ->", d)
else:
    print("NOT CONFIRMED")
