#!/bin/sh
# development helper: solve the obligations of one function group by group (GOVC_ONLY), print what fails
fn="$1"; T="${2:-20}"; shift 2
cd /verif
for g in "$@"; do
  echo "## $g"
  GOVC_NORETRY=1 GOVC_ONLY="$g" timeout 2400 bin/govc fn -pkgs ./internal/model/core,./internal/usecase/core -func "$fn" -timeout "$T" 2>&1 | grep "failed\|^==\|OUTSIDE" | cut -c1-170
done
echo "## done"
