package main

import (
	"flag"
	"fmt"
	"os"
	"path/filepath"
	"sort"
	"strings"
	"sync"
	"sync/atomic"
	"time"

	"govc/internal/vc"
)

const version = "govc 0.1 (go/ssa symbolic execution -> SMT-LIB; z3 5.1.0 / z3 4.8.12 / cvc5 1.0.3)"

func main() {
	if len(os.Args) < 2 {
		fmt.Println("usage: govc version | fn | check")
		os.Exit(2)
	}
	switch os.Args[1] {
	case "version":
		fmt.Println(version)
	case "fn":
		cmdFn(os.Args[2:])
	case "check":
		os.Exit(cmdCheck(os.Args[2:]))
	default:
		fmt.Println("unknown command", os.Args[1])
		os.Exit(2)
	}
}

type oblResult struct {
	Func    string
	Obl     *vc.Obligation
	Answers []vc.Answer
	Verdict string // proved | failed | undecided
	Ms      int64
	Solver  string
	FailIdx int
	refuted int32 // set once one path query has a model: the remaining queries of the obligation are skipped
}

// variantsOf lists the formulations of one path query: light ones first (hypotheses in the goal's cone of
// influence; opaque predicates without, or with only the adjacent, definitions), then the full query and
// its alternative goal formulation.
func variantsOf(res *vc.FuncResult, q vc.PathQuery) []vc.Variant {
	var vs []vc.Variant
	if len(q.PC) > 40 {
		s4 := res.SlicedQuery(q, 4)
		s2 := res.SlicedQuery(q, 2)
		if c := vc.CloseOpaque(s4, false); c != s4 {
			vs = append(vs, vc.Variant{Name: "sliced-closed", Query: c})
			vs = append(vs, vc.Variant{Name: "sliced", Query: s2})
			vs = append(vs, vc.Variant{Name: "sliced-narrow", Query: vc.CloseOpaque(s4, true)})
		} else {
			vs = append(vs, vc.Variant{Name: "sliced", Query: s2})
		}
		if s4 != s2 {
			vs = append(vs, vc.Variant{Name: "sliced4", Query: s4})
		}
	}
	full := res.Query(q, false)
	if c := vc.CloseOpaque(full, true); c != full && len(q.PC) <= 40 {
		vs = append(vs, vc.Variant{Name: "narrow", Query: c})
	}
	vs = append(vs, vc.Variant{Name: "full", Query: full, Full: true})
	if q.Alt != "" {
		q2 := q
		q2.Goal = q.Alt
		vs = append(vs, vc.Variant{Name: "alt", Query: res.Query(q2, false), Full: true})
	}
	return vs
}

func solveAll(results []*vc.FuncResult, s *vc.Solver, workers int) []*oblResult {
	type job struct {
		or  *oblResult
		res *vc.FuncResult
		qi  int
	}
	var out []*oblResult
	var jobs []job
	only := os.Getenv("GOVC_ONLY")
	for _, r := range results {
		for _, o := range r.Obls {
			if only != "" && !strings.Contains(o.Name, only) {
				continue
			}
			or := &oblResult{Func: r.Func, Obl: o, Answers: make([]vc.Answer, len(o.Queries)), FailIdx: -1}
			out = append(out, or)
			for qi := range o.Queries {
				jobs = append(jobs, job{or, r, qi})
			}
		}
	}
	// Rounds.  In a round every still-open query of every obligation that has no failed query is attempted;
	// the first query of an obligation that does not come back `unsat` stops the attempts on that
	// obligation's other queries (they are marked "skipped": the obligation is already not discharged).  A
	// query that ran out of time is retried once, a few at a time, with twice the limit; if the retry
	// succeeds the obligation's skipped queries are attempted in the next round.  A `sat` answer is final.
	// breadth first over the obligations (every obligation's first path query, then the second ones, ...):
	// an obligation that fails is found out by one worker while the others go on with other obligations
	sort.SliceStable(jobs, func(a, b int) bool { return jobs[a].qi < jobs[b].qi })
	pending := jobs
	retried := map[*oblResult]map[int]bool{}
	for round := 0; len(pending) > 0 && round < 6; round++ {
		ch := make(chan job)
		var wg sync.WaitGroup
		for w := 0; w < workers; w++ {
			wg.Add(1)
			go func() {
				defer wg.Done()
				for j := range ch {
					q := j.or.Obl.Queries[j.qi]
					if atomic.LoadInt32(&j.or.refuted) != 0 {
						j.or.Answers[j.qi] = vc.Answer{Result: "skipped", Solver: "none"}
						continue
					}
					a := s.SolvePortfolio(variantsOf(j.res, q))
					j.or.Answers[j.qi] = a
					if a.Result != "unsat" {
						atomic.StoreInt32(&j.or.refuted, 1)
					}
				}
			}()
		}
		for _, j := range pending {
			ch <- j
		}
		close(ch)
		wg.Wait()
		// retry the failed (not refuted by a model) queries
		var again []job
		for _, j := range pending {
			r := j.or.Answers[j.qi].Result
			if r != "unsat" && r != "sat" && r != "skipped" && !retried[j.or][j.qi] {
				again = append(again, j)
			}
		}
		if len(again) == 0 || len(again) > 64 || os.Getenv("GOVC_NORETRY") != "" {
			break
		}
		saved := s.Timeout
		s.Timeout = 2 * saved
		ch2 := make(chan job)
		var wg2 sync.WaitGroup
		for w := 0; w < 4; w++ {
			wg2.Add(1)
			go func() {
				defer wg2.Done()
				for j := range ch2 {
					q := j.or.Obl.Queries[j.qi]
					a := s.SolvePortfolio(variantsOf(j.res, q))
					a.Solver += "/retry"
					j.or.Answers[j.qi] = a
				}
			}()
		}
		for _, j := range again {
			if retried[j.or] == nil {
				retried[j.or] = map[int]bool{}
			}
			retried[j.or][j.qi] = true
			ch2 <- j
		}
		close(ch2)
		wg2.Wait()
		s.Timeout = saved
		// obligations whose retried queries all succeeded: their skipped queries are next
		pending = nil
		reopened := map[*oblResult]bool{}
		for _, j := range again {
			if reopened[j.or] {
				continue
			}
			ok := true
			for _, a := range j.or.Answers {
				if a.Result != "unsat" && a.Result != "skipped" {
					ok = false
				}
			}
			if ok {
				reopened[j.or] = true
				atomic.StoreInt32(&j.or.refuted, 0)
			}
		}
		for _, j := range jobs {
			if reopened[j.or] && j.or.Answers[j.qi].Result == "skipped" {
				pending = append(pending, j)
			}
		}
	}
	for _, or := range out {
		or.Verdict = "proved"
		solvers := map[string]bool{}
		for i, a := range or.Answers {
			or.Ms += a.Ms
			solvers[a.Solver] = true
			if a.Result != "unsat" && or.Verdict == "proved" {
				or.Verdict = "failed"
				or.FailIdx = i
			}
			if a.Result == "sat" && or.Answers[or.FailIdx].Result != "sat" {
				or.FailIdx = i // prefer the query with a model
			}
		}
		var ss []string
		for k := range solvers {
			ss = append(ss, k)
		}
		sort.Strings(ss)
		or.Solver = strings.Join(ss, ",")
		if len(or.Answers) == 0 {
			or.Solver = "trivial"
		}
	}
	return out
}

func cmdFn(args []string) {
	fs := flag.NewFlagSet("fn", flag.ExitOnError)
	repo := fs.String("repo", "/repo", "repository")
	verif := fs.String("verif", "/verif", "verif dir")
	pkgs := fs.String("pkgs", "./...", "comma-separated package patterns to load")
	fn := fs.String("func", "", "contract name of the function (as written after `func`), comma-separated; empty: all contracts in loaded module packages")
	timeout := fs.Int("timeout", 10, "per-query timeout (s)")
	verbose := fs.Bool("v", false, "print every obligation")
	nocache := fs.Bool("nocache", false, "do not use the answer cache")
	showGoal := fs.Bool("goal", false, "print the (abbreviated) failing goal")
	canary := fs.Bool("canary", false, "vacuity probe: satisfiability of return-path conditions (anything but unsat is fine)")
	fs.Parse(args)
	t0 := time.Now()
	p, err := vc.Load(*repo, strings.Split(*pkgs, ","), filepath.Join(*verif, "trusted"))
	if err != nil {
		fmt.Println("load:", err)
		os.Exit(2)
	}
	fmt.Printf("loaded in %.1fs; %d contract files\n", time.Since(t0).Seconds(), len(p.SpecFilesRead))
	if os.Getenv("GOVC_DBG") != "" {
		dbgFuncs(p, os.Getenv("GOVC_DBG"))
	}
	want := map[string]bool{}
	for _, n := range strings.Split(*fn, ",") {
		if n != "" {
			want[strings.Join(strings.Fields(n), "")] = true
		}
	}
	var results []*vc.FuncResult
	for _, spec := range p.FuncSpecs() {
		if spec.IsIface || spec.Trusted || spec.Pkg == "" {
			continue
		}
		if len(want) > 0 && !want[spec.Name] {
			continue
		}
		fns := p.FindFuncs(spec)
		if len(fns) == 0 {
			fmt.Printf("!! contract %s (%s): no such function\n", spec.Name, spec.Pkg)
			continue
		}
		for _, f := range fns {
			r := vc.VerifyFunc(p, f, spec, nil)
			results = append(results, r)
		}
	}
	s := vc.NewSolver(filepath.Join(*verif, "out"), !*nocache, time.Duration(*timeout)*time.Second)
	if os.Getenv("GOVC_DRY") != "" {
		for _, r := range results {
			nq, big := 0, 0
			for _, o := range r.Obls {
				nq += len(o.Queries)
				for _, q := range o.Queries {
					if len(q.PC) > big {
						big = len(q.PC)
					}
				}
			}
			fmt.Printf("%s: %d obligations, %d queries, %d paths (%d returning), largest path condition %d facts; %s\n", r.Func, len(r.Obls), nq, r.Paths, r.RetPaths, big, r.Fail)
			type kv struct {
				n string
				q int
			}
			var top []kv
			for _, o := range r.Obls {
				top = append(top, kv{o.Name, len(o.Queries)})
			}
			sort.Slice(top, func(i, j int) bool { return top[i].q > top[j].q })
			for i := 0; i < len(top) && (i < 12 || os.Getenv("GOVC_DRY") == "all"); i++ {
				fmt.Printf("   %6d  %s\n", top[i].q, top[i].n)
			}
		}
		return
	}
	ors := solveAll(results, s, 16)
	s.Save()
	byFunc := map[string][]*oblResult{}
	for _, or := range ors {
		byFunc[or.Func] = append(byFunc[or.Func], or)
	}
	for _, r := range results {
		n, ok := 0, 0
		for _, or := range byFunc[r.Func] {
			n++
			if or.Verdict == "proved" {
				ok++
			}
		}
		status := "OK"
		if r.Fail != "" {
			status = "OUTSIDE SUBSET: " + r.Fail
		} else if ok != n {
			status = "FAILED"
		}
		cov := ""
		if *canary && r.Fail == "" && len(r.CoverPC) > 1 {
			cov = " canary:"
			for _, pc := range r.CoverPC[1:] {
				cov += " " + s.Probe(r.CoverQuery(pc), 2).Result
			}
		}
		fmt.Printf("== %s: %d/%d obligations discharged, %d paths (%d returning) -- %s%s\n", r.Func, ok, n, r.Paths, r.RetPaths, status, cov)
		for _, w := range r.Warnings {
			fmt.Println("   warning:", w)
		}
		for _, u := range r.Unspec {
			fmt.Println("   unspecified callee:", u)
		}
		for _, or := range byFunc[r.Func] {
			if *verbose || or.Verdict != "proved" {
				extra := ""
				if or.FailIdx >= 0 {
					a := or.Answers[or.FailIdx]
					extra = fmt.Sprintf(" [%s by %s, path %s, %s]", a.Result, a.Solver, or.Obl.Queries[or.FailIdx].Trail, a.File)
				}
				fmt.Printf("   %-8s %-50s %3d queries %5dms %s%s\n", or.Verdict, or.Obl.Name, len(or.Answers), or.Ms, or.Solver, extra)
				if *showGoal && or.FailIdx >= 0 {
					for i, a := range or.Answers {
						if a.Result != "unsat" {
							fmt.Printf("      goal[%d] (%s): %s\n", i, a.Result, abbreviate(or.Obl.Queries[i].Goal))
						}
					}
				}
			}
		}
	}
	fmt.Printf("total %.1fs, solver stats %v\n", time.Since(t0).Seconds(), s.Stats)
}


func abbreviate(g string) string {
	for _, p := range []string{"github.com/glebziz/fs_db/internal/model/core.", "github.com/glebziz/fs_db/internal/model.", "github.com/glebziz/fs_db/internal/usecase/core.", "github.com/glebziz/fs_db/internal/"} {
		g = strings.ReplaceAll(g, p, "")
	}
	if len(g) > 700 {
		g = g[:700] + " ..."
	}
	return g
}
