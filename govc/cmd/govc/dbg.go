package main

import (
	"fmt"
	"strings"

	"golang.org/x/tools/go/ssa/ssautil"
	"govc/internal/vc"
)

func dbgFuncs(p *vc.Program, sub string) {
	for fn := range ssautil.AllFunctions(p.SSA) {
		if strings.Contains(fn.String(), sub) {
			fmt.Printf("%s | synthetic=%q blocks=%v targs=%d\n", fn.String(), fn.Synthetic, fn.Blocks != nil, len(fn.TypeArgs()))
		}
	}
}
