package main

// Counterexample replay: a `sat` answer on a failing obligation is turned into concrete
// inputs (values of the function's "observables" in the solver's model), a Go test is
// instantiated from the function's template, injected into /repo's package with
// `go test -overlay` (the repository is not touched), and run against the real code.

import (
	"encoding/json"
	"fmt"
	"os"
	"os/exec"
	"path/filepath"
	"regexp"
	"strings"
	"time"

	"govc/internal/vc"
)

type replayConfig struct {
	Func        string            `json:"func"`        // display name, e.g. sequence.Set
	Observables map[string]string `json:"observables"` // name -> contract expression over the entry state
	Template    string            `json:"template"`    // file under /verif/replay
	PkgDir      string            `json:"pkgdir"`      // package directory relative to the repository
	Test        string            `json:"test"`        // -run pattern
	Tags        string            `json:"tags,omitempty"`
}

func loadReplayConfigs(verif string) map[string]*replayConfig {
	out := map[string]*replayConfig{}
	files, _ := filepath.Glob(filepath.Join(verif, "replay", "*.json"))
	for _, f := range files {
		b, err := os.ReadFile(f)
		if err != nil {
			continue
		}
		var rc replayConfig
		if json.Unmarshal(b, &rc) == nil && rc.Func != "" {
			out[rc.Func] = &rc
		}
	}
	return out
}

var obsRe = regexp.MustCompile(`(?m)^obs (\S+)\n(.*)$`)

// modelValues runs the model query and returns the observable values as Go literals.
func modelValues(r *vc.FuncResult, q vc.PathQuery, outDir string) (map[string]string, string) {
	query := r.Query(q, true)
	file := filepath.Join(outDir, "model_query.smt2")
	os.WriteFile(file, []byte(query), 0o644)
	out, _ := exec.Command("z3-new", "-T:20", file).CombinedOutput()
	text := string(out)
	vals := map[string]string{}
	for _, m := range obsRe.FindAllStringSubmatch(text, -1) {
		v := strings.TrimSpace(m[2])
		v = strings.ReplaceAll(v, "(- ", "-")
		v = strings.Trim(v, "()")
		v = strings.ReplaceAll(v, " ", "")
		vals[m[1]] = v
	}
	return vals, text
}

type replayOutcome struct {
	Reproduced bool
	TestFile   string
	Overlay    string
	Cmd        string
	Output     string
	Inputs     map[string]string
}

func runReplay(verif, repo string, rc *replayConfig, vals map[string]string, outDir, name string) replayOutcome {
	res := replayOutcome{Inputs: vals}
	tb, err := os.ReadFile(filepath.Join(verif, "replay", rc.Template))
	if err != nil {
		res.Output = "template: " + err.Error()
		return res
	}
	src := string(tb)
	for k, v := range vals {
		src = strings.ReplaceAll(src, "{{"+k+"}}", v)
	}
	if strings.Contains(src, "{{") {
		res.Output = "model does not bind every template placeholder"
		return res
	}
	testFile := filepath.Join(outDir, sanitizeFile(name)+"_replay_test.go")
	os.WriteFile(testFile, []byte(src), 0o644)
	ov := map[string]map[string]string{"Replace": {filepath.Join(repo, rc.PkgDir, "zz_replay_verif_test.go"): testFile}}
	ob, _ := json.Marshal(ov)
	ovFile := filepath.Join(outDir, sanitizeFile(name)+"_overlay.json")
	os.WriteFile(ovFile, ob, 0o644)
	res.TestFile, res.Overlay = testFile, ovFile
	return rerunReplay(repo, rc, &res)
}

func rerunReplay(repo string, rc *replayConfig, res *replayOutcome) replayOutcome {
	args := []string{"test", "-overlay", res.Overlay, "-vet=off", "-count=1", "-timeout", "60s", "-run", rc.Test}
	if rc.Tags != "" {
		args = append(args, "-tags", rc.Tags)
	}
	args = append(args, "./"+rc.PkgDir+"/")
	cmd := exec.Command("go", args...)
	cmd.Dir = repo
	cmd.Env = append(os.Environ(), "GOFLAGS=-mod=mod", "GOPROXY=off", "GOSUMDB=off", "GOTOOLCHAIN=local")
	done := make(chan bool)
	var out []byte
	go func() { out, _ = cmd.CombinedOutput(); done <- true }()
	select {
	case <-done:
	case <-time.After(150 * time.Second):
		if cmd.Process != nil {
			cmd.Process.Kill()
		}
		<-done
	}
	res.Cmd = "cd " + repo + " && go " + strings.Join(args, " ")
	res.Output = trim(string(out), 6000)
	res.Reproduced = strings.Contains(string(out), "REPLAY-VIOLATION")
	return *res
}

// cmdReplay re-runs a stored replay file against the current tree.
func cmdReplay(path, repo string) int {
	b, err := os.ReadFile(path)
	if err != nil {
		fmt.Println("replay:", err)
		return 2
	}
	var data map[string]interface{}
	json.Unmarshal(b, &data)
	fmt.Printf("obligation: %v\nreason: %v\n", data["obligation"], data["solver_result"])
	rp, ok := data["replay"].(map[string]interface{})
	if !ok || rp["Overlay"] == nil || rp["Overlay"] == "" {
		fmt.Println("no executable counterexample stored for this obligation (no-failing-input-found); solver output:")
		fmt.Println(data["solver_output"])
		return 1
	}
	rcb, _ := json.Marshal(data["replay_config"])
	var rc replayConfig
	json.Unmarshal(rcb, &rc)
	res := replayOutcome{Overlay: rp["Overlay"].(string)}
	out := rerunReplay(repo, &rc, &res)
	fmt.Println(out.Cmd)
	fmt.Println(out.Output)
	if out.Reproduced {
		fmt.Println("replay: violation reproduced on the current tree")
		return 1
	}
	fmt.Println("replay: not reproduced on the current tree")
	return 0
}
