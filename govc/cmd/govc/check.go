package main

// `govc check`: decide one property — generate obligations from /repo's working tree,
// discharge them, compare with the committed ledger, write evidence, report violations.

import (
	"encoding/json"
	"flag"
	"fmt"
	"os"
	"path/filepath"
	"regexp"
	"sort"
	"strconv"
	"strings"
	"sync"
	"time"

	"govc/internal/vc"
)

type propContract struct {
	Pkg  string `json:"pkg"`
	Name string `json:"name"`
	Role string `json:"role,omitempty"`
	// clauses of this contract that belong to another property (decided, and reported, there)
	Skip []string `json:"skip_clauses,omitempty"`
	// when set: only obligations whose name contains one of these strings are pinned for this property; the
	// function's other obligations are generated, counted and reported as undecided without being attempted
	// (they would take hours; the pinned clauses are proved under them)
	Only []string `json:"only_clauses,omitempty"`
	// further clauses attempted in the thorough tier only (proved there, but too slow for every change)
	OnlyThorough []string `json:"only_clauses_thorough,omitempty"`
}

type propConfig struct {
	ID          string         `json:"id"`
	Title       string         `json:"title"`
	Packages    []string       `json:"packages"`
	Contracts   []propContract `json:"contracts"`
	Assumptions []string       `json:"assumptions"`
	Undecided   []string       `json:"undecided_parts"`
	Bounded     []string       `json:"bounded"`
	Level       string         `json:"level"`
}

type ledger struct {
	Property string            `json:"property"`
	Proved   map[string]string `json:"proved"` // obligation full name -> solver at baseline time
	Funcs    []string          `json:"functions"`
	Slow     []string          `json:"proved_but_slow,omitempty"` // discharged at baseline time, too slow to pin
	// not discharged at baseline time (solver limits): the quick tier does not spend its time on them again,
	// the thorough tier attempts them; they are reported as undecided, never as proved
	Undecided []string `json:"undecided_at_baseline,omitempty"`
}

type finding struct {
	kind string // finding | fixed
	prop string
	obl  string
	text string
}

func readFindings(path string) []finding {
	b, err := os.ReadFile(path)
	if err != nil {
		return nil
	}
	var out []finding
	re := regexp.MustCompile(`^(finding|fixed):\s+property=(\S+)\s+(?:obligation=(\S+)\s+)?(.*)$`)
	for _, ln := range strings.Split(string(b), "\n") {
		ln = strings.TrimSpace(ln)
		if m := re.FindStringSubmatch(ln); m != nil {
			out = append(out, finding{m[1], m[2], m[3], m[4]})
		}
	}
	return out
}

func sanitizeFile(s string) string {
	re := regexp.MustCompile(`[^A-Za-z0-9_.#:-]+`)
	s = re.ReplaceAllString(s, "_")
	if len(s) > 150 {
		s = s[:150]
	}
	return s
}

func cmdCheck(args []string) int {
	fs := flag.NewFlagSet("check", flag.ExitOnError)
	repo := fs.String("repo", "/repo", "repository working tree")
	verif := fs.String("verif", "/verif", "verif dir")
	prop := fs.String("prop", "", "property id")
	tier := fs.String("tier", "", "quick | thorough")
	replayPath := fs.String("replay", "", "re-run a stored replay file against the current tree")
	rebase := fs.Bool("rebaseline", false, "rewrite the ledger from this run (never done by a check run)")
	triage := fs.Bool("triage", false, "treat every failing obligation as a regression (replay counterexamples); for investigating failures on the unchanged tree")
	verbose := fs.Bool("v", false, "verbose")
	evidenceOut := fs.String("evidence", "", "evidence file (default <verif>/evidence/<id>.json)")
	fs.Parse(args)
	if *replayPath != "" {
		return cmdReplay(*replayPath, *repo)
	}
	if *tier == "" {
		*tier = os.Getenv("VERIF_TIER")
	}
	if *tier == "" {
		*tier = "quick"
	}
	seed, _ := strconv.Atoi(os.Getenv("VERIF_SEED"))
	t0 := time.Now()
	fail := func(format string, a ...interface{}) int {
		fmt.Printf("ERROR: "+format+"\n", a...)
		return 2
	}
	var cfg propConfig
	b, err := os.ReadFile(filepath.Join(*verif, "props", *prop+".json"))
	if err != nil {
		return fail("no property config: %v", err)
	}
	if err := json.Unmarshal(b, &cfg); err != nil {
		return fail("bad property config: %v", err)
	}
	p, err := vc.Load(*repo, cfg.Packages, filepath.Join(*verif, "trusted"))
	if err != nil {
		// the tree no longer builds with the contract files: nothing can be decided
		return fail("load: %v", err)
	}
	loadS := time.Since(t0).Seconds()

	var led ledger
	if lb, err := os.ReadFile(filepath.Join(*verif, "baseline", "ledger", *prop+".json")); err == nil {
		json.Unmarshal(lb, &led)
	}
	findings := readFindings(filepath.Join(*verif, "KNOWN_FINDINGS.txt"))
	known := map[string]finding{}
	for _, f := range findings {
		if f.kind == "finding" && f.prop == *prop {
			known[f.obl] = f
		}
	}

	replays := loadReplayConfigs(*verif)
	observeFor := func(spec *vc.FuncSpec, short string) map[string]string {
		if rc, ok := replays[short]; ok {
			return rc.Observables
		}
		return nil
	}
	// generate
	var results []*vc.FuncResult
	var bindErrs []string
	var skippedClauses []string
	var notAttempted []string
	specByKey := map[string]*vc.FuncSpec{}
	for _, s := range p.FuncSpecs() {
		specByKey[s.Pkg+"::"+s.Name] = s
	}
	for _, c := range cfg.Contracts {
		spec := specByKey[c.Pkg+"::"+strings.Join(strings.Fields(c.Name), "")]
		if spec == nil {
			bindErrs = append(bindErrs, fmt.Sprintf("bind:%s: contract not found in %s", c.Name, c.Pkg))
			continue
		}
		fns := p.FindFuncs(spec)
		if len(fns) == 0 {
			bindErrs = append(bindErrs, fmt.Sprintf("bind:%s: no function of that name in %s", c.Name, c.Pkg))
			continue
		}
		for _, f := range fns {
			r := vc.VerifyFunc(p, f, spec, observeFor(spec, vc.ShortName(f)))
			if len(c.Skip) > 0 {
				var keep []*vc.Obligation
				for _, o := range r.Obls {
					skip := false
					for _, l := range c.Skip {
						if strings.HasSuffix(o.Name, ":"+l) {
							skip = true
						}
					}
					if skip {
						skippedClauses = append(skippedClauses, r.Func+"#"+o.Name)
					} else {
						keep = append(keep, o)
					}
				}
				r.Obls = keep
			}
			if len(c.Only) > 0 {
				only := c.Only
				if *tier == "thorough" {
					only = append(append([]string(nil), c.Only...), c.OnlyThorough...)
				}
				var keep []*vc.Obligation
				for _, o := range r.Obls {
					hit := false
					for _, l := range only {
						if strings.Contains(o.Name, l) {
							hit = true
						}
					}
					if hit {
						keep = append(keep, o)
					} else {
						notAttempted = append(notAttempted, r.Func+"#"+o.Name+" (not attempted: outside the clauses pinned for this function; they are assumed where later clauses are proved)")
					}
				}
				r.Obls = keep
			}
			results = append(results, r)
		}
	}
	genS := time.Since(t0).Seconds() - loadS

	timeout := 30 * time.Second
	cacheOn := true
	if *tier == "thorough" {
		timeout = 60 * time.Second
		cacheOn = false
	}
	solver := vc.NewSolver(filepath.Join(*verif, "out"), cacheOn, timeout)
	solver.AllAgree = *tier == "thorough"
	var skippedUndecided []string
	if *tier == "quick" && !*rebase && !*triage && len(led.Undecided) > 0 {
		skip := map[string]bool{}
		for _, n := range led.Undecided {
			skip[n] = true
		}
		for _, r := range results {
			var keep []*vc.Obligation
			for _, o := range r.Obls {
				if skip[r.Func+"#"+o.Name] {
					skippedUndecided = append(skippedUndecided, r.Func+"#"+o.Name+" (undecided at baseline; attempted in the thorough tier only)")
				} else {
					keep = append(keep, o)
				}
			}
			r.Obls = keep
		}
	}
	ors := solveAll(results, solver, 16)

	// vacuity: entry and some return path must be satisfiable (not refuted)
	type cover struct {
		fn     string
		entry  string
		anyRet string
	}
	var covers []cover
	var vacuous []string
	{
		covers = make([]cover, len(results))
		var wg sync.WaitGroup
		sem := make(chan bool, 16)
		for i, r := range results {
			covers[i] = cover{fn: r.Func, entry: "-", anyRet: "-"}
			if r.Fail != "" || len(r.CoverPC) == 0 {
				continue
			}
			i, r := i, r
			wg.Add(1)
			go func() {
				defer wg.Done()
				sem <- true
				defer func() { <-sem }()
				covers[i].entry = solver.Probe(r.CoverQuery(r.CoverPC[0]), 1).Result
				covers[i].anyRet = "none"
				for _, pc := range r.CoverPC[1:] {
					a := solver.Probe(r.CoverQuery(pc), 1)
					covers[i].anyRet = a.Result
					if a.Result != "unsat" {
						break
					}
				}
			}()
		}
		wg.Wait()
		for i, r := range results {
			if r.Fail != "" || len(r.CoverPC) == 0 {
				continue
			}
			if covers[i].entry == "unsat" {
				vacuous = append(vacuous, r.Func+": precondition unsatisfiable")
			}
			if covers[i].anyRet == "unsat" {
				vacuous = append(vacuous, r.Func+": no return path reachable under the precondition")
			}
			if r.RetPaths == 0 {
				vacuous = append(vacuous, r.Func+": no path reaches a return")
			}
		}
	}
	solver.Save()

	// verdicts
	type violation struct {
		name   string
		reason string
		replay string
		noCex  bool
	}
	var viols []violation
	var knownHit []string
	var undecided []string
	proved := map[string]string{}
	total, discharged := 0, 0
	var samples []map[string]interface{}
	var perObl []map[string]interface{}
	funcsUnder := []string{}
	unsupportedFns := []string{}
	trusted := map[string]bool{}
	unspec := map[string]bool{}
	inlined := map[string]bool{}
	relied := map[string]bool{}
	warnings := map[string]bool{}
	for _, r := range results {
		funcsUnder = append(funcsUnder, r.Func)
		if r.Fail != "" {
			unsupportedFns = append(unsupportedFns, r.Func+": "+r.Fail)
		}
		for _, t := range r.Trusted {
			trusted[t] = true
		}
		for _, t := range r.Unspec {
			unspec[t] = true
		}
		for _, t := range r.Inlined {
			inlined[t] = true
		}
		for _, t := range r.Relied {
			relied[t] = true
		}
		for _, t := range r.Warnings {
			warnings[t] = true
		}
	}
	replayDir := filepath.Join(*verif, "out", "replay", *prop)
	os.MkdirAll(replayDir, 0o755)
	writeReplay := func(name string, data map[string]interface{}) string {
		path := filepath.Join(replayDir, sanitizeFile(name)+".json")
		jb, _ := json.MarshalIndent(data, "", " ")
		os.WriteFile(path, jb, 0o644)
		return path
	}
	resByFunc := map[string]*vc.FuncResult{}
	for _, r := range results {
		resByFunc[r.Func] = r
	}
	// call-site obligations are named by the position of the call in the function; an edit that adds or
	// removes a call shifts the numbers, so a failing one also counts as a regression when the ledger has the
	// same function, callee and clause under another number
	ledNorm := map[string]bool{}
	for n := range led.Proved {
		if strings.Contains(n, "#call#") || strings.Contains(n, "#hint:") {
			ledNorm[normCall(n)] = true
		}
	}
	for _, or := range ors {
		full := or.Func + "#" + or.Obl.Name
		total++
		entry := map[string]interface{}{"obligation": full, "kind": or.Obl.Kind, "queries": len(or.Answers), "verdict": or.Verdict, "solver": or.Solver, "ms": or.Ms}
		if or.Verdict == "proved" {
			discharged++
			proved[full] = or.Solver
			if len(samples) < 6 && len(or.Answers) > 0 {
				// proved queries are not kept on disk; the sample is written out again
				sf := filepath.Join(*verif, "out", "samples", *prop, sanitizeFile(full)+".smt2")
				os.MkdirAll(filepath.Dir(sf), 0o755)
				os.WriteFile(sf, []byte(resByFunc[or.Func].Query(or.Obl.Queries[0], false)), 0o644)
				samples = append(samples, map[string]interface{}{"obligation": full, "clause": or.Obl.Src, "smt_file": sf, "path_queries": len(or.Answers)})
			}
		} else {
			a := or.Answers[or.FailIdx]
			q := or.Obl.Queries[or.FailIdx]
			entry["failing_path"] = q.Trail
			entry["solver_result"] = a.Result
			if f, ok := known[full]; ok {
				knownHit = append(knownHit, fmt.Sprintf("KNOWN-FINDING: property=%s %s (obligation %s)", *prop, f.text, full))
				entry["verdict"] = "known-finding"
			} else if _, was := led.Proved[full]; was || *triage || ledNorm[normCall(full)] {
				// counterexample for the failing path, replayed on the real code when the function has a replay template
				r := resByFunc[or.Func]
				data := map[string]interface{}{
					"property": *prop, "obligation": full, "clause": or.Obl.Src, "kind": or.Obl.Kind,
					"failing_path_blocks": q.Trail, "solver": a.Solver, "solver_result": a.Result, "solver_output": trim(a.Output, 4000),
					"smt_file": a.File,
					"note": "obligation discharged on the baseline tree (ledger) and no longer discharged on this tree",
				}
				noCex := true
				if rc0, has := replays[or.Func]; a.Result == "sat" || (has && len(rc0.Observables) == 0) {
					if rc, ok := replays[or.Func]; ok {
						vals, mtext := modelValues(r, q, replayDir)
						data["model_values"] = vals
						data["model_output"] = trim(mtext, 4000)
						out := runReplay(*verif, *repo, rc, vals, replayDir, full)
						data["replay"] = out
						data["replay_config"] = rc
						if out.Reproduced {
							noCex = false
						}
					} else {
						data["model_note"] = "solver answered sat; no replay template for this function"
					}
				}
				rp := writeReplay(full, data)
				viols = append(viols, violation{name: full, reason: a.Result, replay: rp, noCex: noCex})
			} else {
				undecided = append(undecided, full+" ("+a.Result+")")
			}
		}
		perObl = append(perObl, entry)
	}
	// ledger entries that no longer exist (contract clauses only; safety/call names follow the code)
	have := map[string]bool{}
	for _, or := range ors {
		have[or.Func+"#"+or.Obl.Name] = true
	}
	var ledNames []string
	for n := range led.Proved {
		ledNames = append(ledNames, n)
	}
	sort.Strings(ledNames)
	for _, n := range ledNames {
		if have[n] {
			continue
		}
		i := strings.Index(n, "#")
		obl := n[i+1:]
		if strings.HasPrefix(obl, "safety:") || strings.HasPrefix(obl, "call#") || strings.HasPrefix(obl, "frame:") || strings.Contains(obl, ":frame:") || strings.HasPrefix(obl, "refine:") {
			continue
		}
		fnName := n[:i]
		reason := "clause no longer generated"
		if r, ok := resByFunc[fnName]; ok && r.Fail != "" {
			reason = "function left the verifiable subset: " + r.Fail
		} else if !ok {
			reason = "function or contract can no longer be bound"
		}
		rp := writeReplay("bind_"+n, map[string]interface{}{"property": *prop, "obligation": n, "reason": reason, "bind_errors": bindErrs,
			"note": "the proof this property rested on no longer exists on this tree"})
		viols = append(viols, violation{name: n, reason: reason, replay: rp, noCex: true})
	}
	for _, v := range vacuous {
		rp := writeReplay("vacuity_"+v, map[string]interface{}{"property": *prop, "obligation": "vacuity:" + v})
		viols = append(viols, violation{name: "vacuity:" + v, reason: "vacuous", replay: rp, noCex: true})
	}
	if len(led.Proved) == 0 && !*rebase && !*triage {
		return fail("no ledger for %s: run with --rebaseline once the obligations are discharged", *prop)
	}

	if *rebase {
		// obligations whose slowest path query needed a large share of the quick time limit are proved but
		// not pinned: a later timeout on them is reported as undecided, not as a violation
		slow := []string{}
		for _, or := range ors {
			if or.Verdict != "proved" {
				continue
			}
			var mx int64
			for _, a := range or.Answers {
				if a.Ms > mx {
					mx = a.Ms
				}
			}
			if mx > 12000 {
				full := or.Func + "#" + or.Obl.Name
				delete(proved, full)
				slow = append(slow, fmt.Sprintf("%s (%d ms)", full, mx))
			}
		}
		var und []string
		for _, or := range ors {
			full := or.Func + "#" + or.Obl.Name
			if _, isKnown := known[full]; or.Verdict != "proved" && !isKnown {
				und = append(und, full)
			}
		}
		sort.Strings(und)
		nl := ledger{Property: *prop, Proved: proved, Funcs: funcsUnder, Slow: slow, Undecided: und}
		lb, _ := json.MarshalIndent(nl, "", " ")
		os.MkdirAll(filepath.Join(*verif, "baseline", "ledger"), 0o755)
		os.WriteFile(filepath.Join(*verif, "baseline", "ledger", *prop+".json"), lb, 0o644)
		fmt.Printf("ledger rewritten: %d proved obligations, %d not discharged\n", len(proved), total-discharged)
	}

	// evidence
	level := cfg.Level
	if level == "" {
		level = "proof"
	}
	explanation := ""
	if level == "proof" && (len(knownHit) > 0 || len(undecided) > 0 || len(skippedUndecided) > 0 || len(notAttempted) > 0 || len(unsupportedFns) > 0) {
		level = "other"
		explanation = "contract-based deductive verification; not every generated obligation is discharged (known findings / undecided obligations listed), so this run is not reported at proof level"
	}
	if level == "other" && explanation == "" {
		explanation = "contract-based deductive verification of the listed functions; parts of the property are outside what the contracts decide (see undecided_parts)"
	}
	tb := []string{"go/types + golang.org/x/tools@v0.29.0 go/packages, go/ssa (translation of the source to SSA)", "govc verification-condition generator (this repository, /verif/govc)",
		"SMT solvers z3 5.1.0, z3 4.8.12, cvc5 1.0.3", "integers are mathematical with machine-range assumptions on inputs and overflow obligations on + - * and narrowing conversions",
		"memory model: one SMT array per struct field / cell type / slice element type; fresh allocations distinct from all earlier objects"}
	for _, t := range keys(trusted) {
		tb = append(tb, "trusted contract (assumed, not verified): "+t)
	}
	for _, t := range keys(unspec) {
		tb = append(tb, "callee without contract (result unconstrained, assumed not to write heap under contract): "+t)
	}
	for _, t := range keys(inlined) {
		tb = append(tb, "inlined (body used instead of a contract): "+t)
	}
	for _, t := range keys(relied) {
		tb = append(tb, "contract relied upon at call sites (verified where it is listed under functions_under_contract of its property): "+t)
	}
	undecided = append(undecided, skippedUndecided...)
	undecided = append(undecided, notAttempted...)
	total += len(skippedUndecided) + len(notAttempted)
	cov := map[string]interface{}{
		"obligations": total, "discharged": discharged,
		"checker_cmd":  fmt.Sprintf("/verif/check %s --tier %s", *prop, *tier),
		"trusted_base": tb, "samples": samples,
		"functions_under_contract": funcsUnder, "functions_outside_subset": unsupportedFns,
		"per_obligation": perObl, "undecided_obligations": undecided, "known_findings_hit": knownHit,
		"solver_stats": solver.Stats, "solver_ms": solver.TotalMs, "load_s": loadS, "generate_s": genS,
		"vacuity_covers": fmt.Sprintf("%v", covers), "contract_files": p.SpecFilesRead, "warnings": keys(warnings),
		"undecided_parts_of_property": cfg.Undecided, "bounded_stand_ins": cfg.Bounded,
		"exhaustive": false, "bind_errors": bindErrs, "clauses_decided_under_another_property": skippedClauses,
		"cache_hits": solver.CacheHits,
	}
	if level == "other" {
		cov["explanation"] = explanation
	}
	ev := map[string]interface{}{
		"property_id": *prop, "tier": *tier, "seed": seed, "level": level, "coverage": cov,
		"assumptions": cfg.Assumptions, "wall_s": time.Since(t0).Seconds(), "violations": len(viols),
	}
	evPath := *evidenceOut
	if evPath == "" {
		evPath = filepath.Join(*verif, "evidence", *prop+".json")
	}
	os.MkdirAll(filepath.Dir(evPath), 0o755)
	eb, _ := json.MarshalIndent(ev, "", " ")
	if err := os.WriteFile(evPath, eb, 0o644); err != nil {
		return fail("write evidence: %v", err)
	}

	for _, k := range knownHit {
		fmt.Println(k)
	}
	if *verbose || len(viols) > 0 {
		for _, u := range undecided {
			fmt.Println("undecided:", u)
		}
		for _, u := range unsupportedFns {
			fmt.Println("outside subset:", u)
		}
	}
	fmt.Printf("%s %s: %d functions, %d obligations, %d discharged, %d undecided, %d known findings, %d violations, %.1fs (load %.1fs, solver %dms)\n",
		*prop, *tier, len(results), total, discharged, len(undecided), len(knownHit), len(viols), time.Since(t0).Seconds(), loadS, solver.TotalMs)
	if len(viols) > 0 {
		for _, v := range viols {
			suffix := ""
			if v.noCex {
				suffix = " no-failing-input-found"
			}
			fmt.Printf("failed obligation: %s (%s)\n", v.name, v.reason)
			fmt.Printf("VIOLATION property=%s replay=%s%s\n", *prop, v.replay, suffix)
		}
		return 1
	}
	return 0
}

func trim(s string, n int) string {
	if len(s) > n {
		return s[:n] + "…"
	}
	return s
}

func keys(m map[string]bool) []string {
	var ks []string
	for k := range m {
		ks = append(ks, k)
	}
	sort.Strings(ks)
	return ks
}

var callNumRe = regexp.MustCompile(`#call#\d+:`)
var hintNumRe = regexp.MustCompile(`(#hint:(before|after):[^#]*)#\d+:`)

// normCall drops the position numbers from a call-site or hint obligation name ("" for other names).
func normCall(n string) string {
	if strings.Contains(n, "#call#") {
		return callNumRe.ReplaceAllString(n, "#call#N:")
	}
	if strings.Contains(n, "#hint:") {
		return hintNumRe.ReplaceAllString(n, "$1#N:")
	}
	return ""
}
