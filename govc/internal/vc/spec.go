package vc

// Contract language: lexer, AST, parser.
//
// Contracts are `//@` comment lines in verif-tagged files of /repo and plain
// lines in /verif/trusted/*.spec.  A statement starts on a line whose first
// word is a statement keyword and runs until the next such line.

import (
	"fmt"
	"strings"
	"unicode"
)

// ---------- AST ----------

type Expr interface{}

type (
	Ident   struct{ Name string }
	IntLit  struct{ V string }
	StrLit  struct{ V string }
	BoolLit struct{ V bool }
	NilLit  struct{}
	Unary   struct {
		Op string
		X  Expr
	}
	Binary struct {
		Op   string
		X, Y Expr
	}
	CallE struct {
		Fun  string
		Args []Expr
	}
	Sel struct {
		X Expr
		F string
	}
	Index struct{ X, I Expr }
	SliceE struct{ X, Lo, Hi Expr }
	Quant  struct {
		All  bool
		Vars []QVar
		Trig [][]Expr
		Body Expr
	}
	SeqLit struct{ Elems []Expr }
)

type QVar struct {
	Name string
	Ty   *TypeExpr
}

// TypeExpr is the small type syntax of the contract language.
type TypeExpr struct {
	Kind string // name | ptr | slice | seq | set | map
	Name string // for Kind==name: possibly pkg.Name
	Args []*TypeExpr
	Elem *TypeExpr
	Key  *TypeExpr
}

func (t *TypeExpr) String() string {
	switch t.Kind {
	case "name":
		if len(t.Args) > 0 {
			var as []string
			for _, a := range t.Args {
				as = append(as, a.String())
			}
			return t.Name + "[" + strings.Join(as, ",") + "]"
		}
		return t.Name
	case "ptr":
		return "*" + t.Elem.String()
	case "slice":
		return "[]" + t.Elem.String()
	case "seq":
		return "seq[" + t.Elem.String() + "]"
	case "set":
		return "set[" + t.Elem.String() + "]"
	case "map":
		return "map[" + t.Key.String() + "]" + t.Elem.String()
	}
	return "?"
}

type Clause struct {
	Label string
	E     Expr
	Src   string
	// NoExport: a postcondition the property demands (`expects`): it is an obligation of the function like any
	// `ensures`, but callers never assume it -- so a clause that fails (a recorded finding) cannot leak into
	// the proofs of the callers
	NoExport bool
}

type GhostAssign struct {
	LHS   Expr
	RHS   Expr
	QVars []QVar // comprehension: ghost forall m T :: m.f := e  (every object's field at once)
}

type FuncSpec struct {
	Name        string // as written, normalised (no spaces)
	Pkg         string // package path the spec file belongs to ("" for trusted files: names qualified)
	IsIface     bool
	Params      []string // optional explicit parameter names
	Requires    []Clause
	Ensures     []Clause
	ExitAssert  []Clause // asserted at every return with the function's locals in scope; not exported to callers
	Hints       []Hint   // proof cuts: proved, then assumed, before/after the k-th call of a callee in the body
	Modifies    []string // heap key patterns "Type.field", "*"
	HasModifies bool
	Ghost       []GhostAssign
	Decreases   Expr
	Transparent bool
	Trusted     bool
	Opaque      bool // never inline even without contract
	Lemma       bool
	File        string
}

// Hint is an intermediate assertion (a cut) inside a function body: `hint before (*T).M#2 label: expr`
// is proved as an obligation of its own in the state right before the second call of (*T).M (in SSA
// order) and assumed afterwards.  It adds no assumption: what is assumed has just been proved.
type Hint struct {
	After  bool
	Callee string
	K      int
	C      Clause
}

type LoopSpec struct {
	Func      string
	Ordinal   int
	Inv       []Clause
	Decreases Expr
	Modifies  []string
	Ghost     []GhostAssign
}

type PureFunc struct {
	Opaque bool // applications are atoms P_k(args) (k = the heap state they are evaluated in) with a definitional axiom
	Name   string
	Params []QVar
	Ret    *TypeExpr
	Body   Expr // nil: uninterpreted
	Pkg    string
}

type GhostField struct {
	Recv string // type name (origin), e.g. List, file
	Name string
	Ty   *TypeExpr
	Pkg  string
}

type Axiom struct {
	Label string
	E     Expr
	Pkg   string
}

type SpecFile struct {
	Pkg    string
	Funcs  []*FuncSpec
	Loops  []*LoopSpec
	Pures  []*PureFunc
	Ghosts []*GhostField
	Axioms []*Axiom
}

// ---------- lexer ----------

type tok struct {
	k string // id int str op eof
	v string
}

func lex(src string) ([]tok, error) {
	var ts []tok
	rs := []rune(src)
	i := 0
	for i < len(rs) {
		c := rs[i]
		switch {
		case unicode.IsSpace(c):
			i++
		case c == '-' && i+1 < len(rs) && rs[i+1] == '-':
			for i < len(rs) && rs[i] != '\n' {
				i++
			}
		case unicode.IsLetter(c) || c == '_' || c == '$':
			j := i
			for j < len(rs) && (unicode.IsLetter(rs[j]) || unicode.IsDigit(rs[j]) || rs[j] == '_' || rs[j] == '$') {
				j++
			}
			ts = append(ts, tok{"id", string(rs[i:j])})
			i = j
		case unicode.IsDigit(c):
			j := i
			for j < len(rs) && (unicode.IsDigit(rs[j]) || rs[j] == '_' || rs[j] == 'x' || (rs[j] >= 'a' && rs[j] <= 'f') || (rs[j] >= 'A' && rs[j] <= 'F')) {
				j++
			}
			ts = append(ts, tok{"int", strings.ReplaceAll(string(rs[i:j]), "_", "")})
			i = j
		case c == '"':
			j := i + 1
			var sb strings.Builder
			for j < len(rs) && rs[j] != '"' {
				if rs[j] == '\\' && j+1 < len(rs) {
					j++
					switch rs[j] {
					case 'n':
						sb.WriteRune('\n')
					case 't':
						sb.WriteRune('\t')
					default:
						sb.WriteRune(rs[j])
					}
				} else {
					sb.WriteRune(rs[j])
				}
				j++
			}
			if j >= len(rs) {
				return nil, fmt.Errorf("unterminated string")
			}
			ts = append(ts, tok{"str", sb.String()})
			i = j + 1
		default:
			ops := []string{"<==>", "==>", "::", "==", "!=", "<=", ">=", "&&", "||", "++", "<", ">", "!", "+", "-", "*", "/", "%", "(", ")", "[", "]", "{", "}", ",", ".", ":", "&", "#", "$", "@", "=", "|", ";"}
			matched := false
			for _, op := range ops {
				if strings.HasPrefix(string(rs[i:min(i+len(op), len(rs))]), op) {
					ts = append(ts, tok{"op", op})
					i += len([]rune(op))
					matched = true
					break
				}
			}
			if !matched {
				return nil, fmt.Errorf("bad character %q", c)
			}
		}
	}
	ts = append(ts, tok{"eof", ""})
	return ts, nil
}

// ---------- parser ----------

type parser struct {
	ts  []tok
	pos int
}

func (p *parser) peek() tok { return p.ts[p.pos] }
func (p *parser) next() tok { t := p.ts[p.pos]; p.pos++; return t }
func (p *parser) isOp(v string) bool {
	t := p.peek()
	return t.k == "op" && t.v == v
}
func (p *parser) isID(v string) bool {
	t := p.peek()
	return t.k == "id" && t.v == v
}
func (p *parser) accept(v string) bool {
	if p.isOp(v) {
		p.pos++
		return true
	}
	return false
}
func (p *parser) expect(v string) {
	if !p.accept(v) {
		panic(fmt.Sprintf("expected %q, found %q", v, p.peek().v))
	}
}

func (p *parser) parseType() *TypeExpr {
	if p.accept("*") {
		return &TypeExpr{Kind: "ptr", Elem: p.parseType()}
	}
	if p.accept("[") {
		p.expect("]")
		return &TypeExpr{Kind: "slice", Elem: p.parseType()}
	}
	t := p.next()
	if t.k != "id" {
		panic("type expected, found " + t.v)
	}
	switch t.v {
	case "seq", "set":
		p.expect("[")
		e := p.parseType()
		p.expect("]")
		return &TypeExpr{Kind: t.v, Elem: e}
	case "map":
		p.expect("[")
		k := p.parseType()
		p.expect("]")
		return &TypeExpr{Kind: "map", Key: k, Elem: p.parseType()}
	}
	name := t.v
	for p.isOp("/") && p.ts[p.pos+1].k == "id" { // import path: sync/atomic.Bool
		p.next()
		name += "/" + p.next().v
	}
	if p.isOp(".") && p.ts[p.pos+1].k == "id" {
		p.next()
		name += "." + p.next().v
	}
	te := &TypeExpr{Kind: "name", Name: name}
	if p.isOp("[") {
		p.next()
		for {
			te.Args = append(te.Args, p.parseType())
			if !p.accept(",") {
				break
			}
		}
		p.expect("]")
	}
	return te
}

var binPrec = map[string]int{
	"<==>": 1, "==>": 2, "||": 3, "&&": 4,
	"==": 5, "!=": 5, "<": 5, "<=": 5, ">": 5, ">=": 5,
	"+": 6, "-": 6, "++": 6, "*": 7, "/": 7, "%": 7,
}

func (p *parser) parseExpr() Expr { return p.parseBin(1) }

func (p *parser) parseBin(minPrec int) Expr {
	lhs := p.parseUnary()
	for {
		t := p.peek()
		if t.k != "op" {
			return lhs
		}
		prec, ok := binPrec[t.v]
		if !ok || prec < minPrec {
			return lhs
		}
		p.next()
		var rhs Expr
		if t.v == "==>" || t.v == "<==>" { // right assoc
			rhs = p.parseBin(prec)
		} else {
			rhs = p.parseBin(prec + 1)
		}
		lhs = &Binary{Op: t.v, X: lhs, Y: rhs}
	}
}

func (p *parser) parseUnary() Expr {
	if p.isID("forall") || p.isID("exists") {
		return p.parseQuant()
	}
	if p.accept("!") {
		return &Unary{Op: "!", X: p.parseUnary()}
	}
	if p.accept("-") {
		return &Unary{Op: "-", X: p.parseUnary()}
	}
	if p.accept("*") {
		return &Unary{Op: "*", X: p.parseUnary()}
	}
	if p.accept("&") {
		return &Unary{Op: "&", X: p.parseUnary()}
	}
	return p.parsePostfix(p.parsePrimary())
}

func (p *parser) parseQuant() Expr {
	q := &Quant{All: p.next().v == "forall"}
	q.Vars = p.parseVarList(func() bool { return p.isOp("::") || p.isOp("{") })
	for p.isOp("{") {
		p.next()
		var tr []Expr
		for {
			tr = append(tr, p.parseExpr())
			if !p.accept(",") {
				break
			}
		}
		p.expect("}")
		q.Trig = append(q.Trig, tr)
	}
	p.expect("::")
	q.Body = p.parseExpr()
	return q
}

// parseVarList parses Go-style `a, b T, c U` until stop() holds.
func (p *parser) parseVarList(stop func() bool) []QVar {
	var out []QVar
	var pending []string
	for !stop() {
		t := p.next()
		if t.k != "id" {
			panic("variable name expected, found " + t.v)
		}
		pending = append(pending, t.v)
		if p.accept(",") {
			continue
		}
		if stop() {
			panic("type expected after " + t.v)
		}
		ty := p.parseType()
		for _, n := range pending {
			out = append(out, QVar{n, ty})
		}
		pending = nil
		if !p.accept(",") && !p.accept(";") {
			break
		}
	}
	if len(pending) > 0 {
		panic("type expected after " + pending[len(pending)-1])
	}
	return out
}

func (p *parser) parsePrimary() Expr {
	t := p.next()
	switch t.k {
	case "int":
		return &IntLit{t.v}
	case "str":
		return &StrLit{t.v}
	case "id":
		switch t.v {
		case "true":
			return &BoolLit{true}
		case "false":
			return &BoolLit{false}
		case "nil":
			return &NilLit{}
		}
		if p.isOp("(") {
			p.next()
			var args []Expr
			if !p.isOp(")") {
				for {
					args = append(args, p.parseExpr())
					if !p.accept(",") {
						break
					}
				}
			}
			p.expect(")")
			return &CallE{Fun: t.v, Args: args}
		}
		return &Ident{t.v}
	case "op":
		if t.v == "(" {
			e := p.parseExpr()
			p.expect(")")
			return e
		}
		if t.v == "[" { // sequence literal [a, b]
			var es []Expr
			if !p.isOp("]") {
				for {
					es = append(es, p.parseExpr())
					if !p.accept(",") {
						break
					}
				}
			}
			p.expect("]")
			return &SeqLit{es}
		}
	}
	panic(fmt.Sprintf("unexpected token %q", t.v))
}

func (p *parser) parsePostfix(x Expr) Expr {
	for {
		switch {
		case p.isOp("."):
			p.next()
			t := p.next()
			if t.k != "id" {
				panic("field name expected")
			}
			if p.isOp("(") { // pkg.func(args) call
				if id, ok := x.(*Ident); ok {
					p.next()
					var args []Expr
					if !p.isOp(")") {
						for {
							args = append(args, p.parseExpr())
							if !p.accept(",") {
								break
							}
						}
					}
					p.expect(")")
					x = &CallE{Fun: id.Name + "." + t.v, Args: args}
					continue
				}
			}
			x = &Sel{x, t.v}
		case p.isOp("["):
			p.next()
			var lo, hi Expr
			if p.isOp(":") {
				p.next()
				if !p.isOp("]") {
					hi = p.parseExpr()
				}
				p.expect("]")
				x = &SliceE{x, nil, hi}
				continue
			}
			lo = p.parseExpr()
			if p.accept(":") {
				if !p.isOp("]") {
					hi = p.parseExpr()
				}
				p.expect("]")
				x = &SliceE{x, lo, hi}
				continue
			}
			p.expect("]")
			x = &Index{x, lo}
		default:
			return x
		}
	}
}

var stmtKeywords = map[string]bool{
	"func": true, "iface": true, "loop": true, "pure": true, "ghost": true, "lemma": true,
	"requires": true, "ensures": true, "expects": true, "modifies": true, "invariant": true, "decreases": true,
	"exitassert": true, "hint": true, "transparent": true, "trusted": true, "opaque": true, "axiom": true, "params": true,
}

// ParseSpec parses the contract text of one file.
func ParseSpec(pkg, file, text string) (sf *SpecFile, err error) {
	sf = &SpecFile{Pkg: pkg}
	var stmts []string
	for _, ln := range strings.Split(text, "\n") {
		l := strings.TrimSpace(ln)
		if l == "" {
			continue
		}
		if strings.HasPrefix(l, "--") {
			continue
		}
		first := l
		if i := strings.IndexAny(l, " \t"); i >= 0 {
			first = l[:i]
		}
		if stmtKeywords[first] {
			stmts = append(stmts, l)
		} else if len(stmts) > 0 {
			stmts[len(stmts)-1] += "\n" + l
		} else {
			return nil, fmt.Errorf("%s: text before first statement: %q", file, l)
		}
	}
	var curF *FuncSpec
	var curL *LoopSpec
	for _, s := range stmts {
		s := s
		kw := s
		rest := ""
		if i := strings.IndexAny(s, " \t\n"); i >= 0 {
			kw, rest = s[:i], strings.TrimSpace(s[i+1:])
		}
		perr := func() (e error) {
			defer func() {
				if r := recover(); r != nil {
					e = fmt.Errorf("%s: in %q: %v", file, firstLine(s), r)
				}
			}()
			mk := func(src string) *parser {
				ts, lerr := lex(src)
				if lerr != nil {
					panic(lerr)
				}
				return &parser{ts: ts}
			}
			clause := func() Clause {
				i := strings.Index(rest, ":")
				if i < 0 {
					panic("clause needs 'label: expr'")
				}
				label := strings.TrimSpace(rest[:i])
				for _, r := range label {
					if !(unicode.IsLetter(r) || unicode.IsDigit(r) || r == '_') {
						panic("bad label " + label)
					}
				}
				p := mk(rest[i+1:])
				e := p.parseExpr()
				if p.peek().k != "eof" {
					panic("trailing tokens after expression: " + p.peek().v)
				}
				return Clause{Label: label, E: e, Src: strings.Join(strings.Fields(rest[i+1:]), " ")}
			}
			switch kw {
			case "func", "iface", "lemma":
				curL = nil
				curF = &FuncSpec{Name: strings.Join(strings.Fields(rest), ""), Pkg: pkg, IsIface: kw == "iface", Lemma: kw == "lemma", File: file}
				sf.Funcs = append(sf.Funcs, curF)
			case "loop":
				curF = nil
				i := strings.LastIndex(rest, "#")
				if i < 0 {
					panic("loop needs func#ordinal")
				}
				n := 0
				fmt.Sscanf(rest[i+1:], "%d", &n)
				curL = &LoopSpec{Func: strings.Join(strings.Fields(rest[:i]), ""), Ordinal: n}
				sf.Loops = append(sf.Loops, curL)
			case "params":
				if curF == nil {
					panic("params outside func")
				}
				for _, n := range strings.Split(rest, ",") {
					curF.Params = append(curF.Params, strings.TrimSpace(n))
				}
			case "requires":
				if curF == nil {
					panic("requires outside func")
				}
				curF.Requires = append(curF.Requires, clause())
			case "ensures", "expects":
				if curF == nil {
					panic("ensures outside func")
				}
				cl := clause()
				cl.NoExport = kw == "expects"
				curF.Ensures = append(curF.Ensures, cl)
			case "exitassert":
				if curF == nil {
					panic("exitassert outside func")
				}
				curF.ExitAssert = append(curF.ExitAssert, clause())
			case "hint":
				if curF == nil {
					panic("hint outside func")
				}
				fs := strings.Fields(rest)
				if len(fs) < 3 || (fs[0] != "before" && fs[0] != "after") {
					panic("hint needs 'before|after callee#k label: expr'")
				}
				h := Hint{After: fs[0] == "after", Callee: fs[1], K: 1}
				if i := strings.LastIndex(fs[1], "#"); i >= 0 {
					h.Callee = fs[1][:i]
					fmt.Sscanf(fs[1][i+1:], "%d", &h.K)
				}
				rest = strings.TrimSpace(strings.TrimPrefix(strings.TrimSpace(strings.TrimPrefix(rest, fs[0])), fs[1]))
				h.C = clause()
				curF.Hints = append(curF.Hints, h)
			case "invariant":
				if curL == nil {
					panic("invariant outside loop")
				}
				curL.Inv = append(curL.Inv, clause())
			case "axiom":
				c := clause()
				sf.Axioms = append(sf.Axioms, &Axiom{c.Label, c.E, pkg})
			case "decreases":
				p := mk(rest)
				e := p.parseExpr()
				if curL != nil {
					curL.Decreases = e
				} else if curF != nil {
					curF.Decreases = e
				} else {
					panic("decreases outside func/loop")
				}
			case "modifies":
				var ms []string
				for _, m := range strings.Split(rest, ",") {
					if m = strings.TrimSpace(m); m != "" {
						ms = append(ms, m)
					}
				}
				if curL != nil {
					curL.Modifies = append(curL.Modifies, ms...)
				} else if curF != nil {
					curF.Modifies = append(curF.Modifies, ms...)
					curF.HasModifies = true
				} else {
					panic("modifies outside func/loop")
				}
			case "transparent":
				curF.Transparent = true
			case "trusted":
				curF.Trusted = true
			case "opaque":
				if strings.HasPrefix(rest, "pure") {
					// opaque pure func ...: re-dispatch as a pure func with the flag set
					n := len(sf.Pures)
					sub, perr := ParseSpec(pkg, file, rest)
					if perr != nil {
						panic(perr.Error())
					}
					for _, pf := range sub.Pures {
						pf.Opaque = true
						sf.Pures = append(sf.Pures, pf)
					}
					_ = n
					return nil
				}
				curF.Opaque = true
			case "ghost":
				if strings.HasPrefix(rest, "field") {
					p := mk(strings.TrimSpace(rest[len("field"):]))
					// (T).name type   or  (*T).name type
					p.expect("(")
					p.accept("*")
					recv := p.next().v
					for p.accept("/") { // import path: sync/atomic.Bool
						recv = recv + "/" + p.next().v
					}
					if p.accept(".") { // pkg.Type: ghost field on a type of another package (trusted specs)
						recv = recv + "." + p.next().v
					}
					p.expect(")")
					p.expect(".")
					name := p.next().v
					ty := p.parseType()
					sf.Ghosts = append(sf.Ghosts, &GhostField{Recv: recv, Name: name, Ty: ty, Pkg: pkg})
					return nil
				}
				i := strings.Index(rest, ":=")
				if i < 0 {
					panic("ghost assignment needs ':='")
				}
				var qvars []QVar
				lhsSrc := rest[:i]
				if strings.HasPrefix(strings.TrimSpace(lhsSrc), "forall") {
					j := strings.Index(lhsSrc, "::")
					if j < 0 {
						panic("ghost forall needs '::'")
					}
					pq := mk(strings.TrimSpace(lhsSrc)[len("forall"):strings.Index(strings.TrimSpace(lhsSrc), "::")] + " ::")
					qvars = pq.parseVarList(func() bool { return pq.isOp("::") })
					lhsSrc = lhsSrc[j+2:]
				}
				pl := mk(lhsSrc)
				lhs := pl.parseExpr()
				pr := mk(rest[i+2:])
				rhs := pr.parseExpr()
				ga := GhostAssign{LHS: lhs, RHS: rhs, QVars: qvars}
				if curL != nil {
					curL.Ghost = append(curL.Ghost, ga)
				} else if curF != nil {
					curF.Ghost = append(curF.Ghost, ga)
				} else {
					panic("ghost assignment outside func/loop")
				}
			case "pure":
				// pure func name(a T, b U) R [= expr]
				body := ""
				head := rest
				if i := strings.Index(rest, "="); i >= 0 {
					// first '=' that is not part of ==, <=, >=, !=  at depth 0 after the signature
					depth := 0
					idx := -1
					rr := []rune(rest)
					for k := 0; k < len(rr); k++ {
						switch rr[k] {
						case '(', '[':
							depth++
						case ')', ']':
							depth--
						case '=':
							if depth == 0 && (k+1 >= len(rr) || rr[k+1] != '=') && (k == 0 || !strings.ContainsRune("=<>!", rr[k-1])) {
								idx = k
							}
						}
						if idx >= 0 {
							break
						}
					}
					if idx >= 0 {
						head, body = string(rr[:idx]), string(rr[idx+1:])
					}
				}
				p := mk(head)
				if !p.isID("func") {
					panic("pure func expected")
				}
				p.next()
				pf := &PureFunc{Name: p.next().v, Pkg: pkg}
				p.expect("(")
				pf.Params = p.parseVarList(func() bool { return p.isOp(")") })
				p.expect(")")
				pf.Ret = p.parseType()
				if strings.TrimSpace(body) != "" {
					pb := mk(body)
					pf.Body = pb.parseExpr()
					if pb.peek().k != "eof" {
						panic("trailing tokens in pure func body")
					}
				}
				sf.Pures = append(sf.Pures, pf)
			}
			return nil
		}()
		if perr != nil {
			return nil, perr
		}
	}
	return sf, nil
}

func firstLine(s string) string {
	if i := strings.Index(s, "\n"); i >= 0 {
		return s[:i]
	}
	return s
}
