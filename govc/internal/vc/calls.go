package vc

// Calls: builtins, contracts (modular), inlining of transparent / contract-less
// repository functions and closures, engine-level models of fmt.Errorf.

import (
	"go/token"
	"fmt"
	"go/constant"
	"go/types"
	"strings"

	"golang.org/x/tools/go/ssa"
)

func (x *Exec) stepCall(st *State, ins *ssa.Call) {
	c := &ins.Call
	var args []Val
	for _, a := range c.Args {
		args = append(args, x.val(st, a))
	}
	var fnv Val
	if _, isB := c.Value.(*ssa.Builtin); !isB {
		fnv = x.val(st, c.Value)
	}
	x.invoke(st, ins, c, fnv, args, fkInline)
}

func (x *Exec) completeCall(st *State, site ssa.Instruction, kind frameKind, res Val) {
	fr := st.fr
	if kind == fkInline {
		if v, ok := site.(ssa.Value); ok {
			fr.vals[v] = res
		}
		fr.idx++
	}
	// fkDefer: RunDefers is re-executed
	x.hintsAt(st, site, true)
}

func callRank(fn *ssa.Function, site ssa.Instruction) int {
	n := 0
	for _, b := range fn.Blocks {
		for _, i := range b.Instrs {
			switch i.(type) {
			case *ssa.Call, *ssa.Defer, *ssa.Go:
				n++
			}
			if i == site {
				return n
			}
		}
	}
	return 0
}

func (x *Exec) onStack(st *State, fn *ssa.Function) bool {
	for fr := st.fr; fr != nil; fr = fr.parent {
		if fr.fn == fn {
			return true
		}
	}
	return false
}

// calleeLabel: the name hints use for a call site.
func calleeLabel(c *ssa.CallCommon) string {
	if c.IsInvoke() {
		return c.Method.Name()
	}
	if b, ok := c.Value.(*ssa.Builtin); ok {
		return b.Name()
	}
	if f := c.StaticCallee(); f != nil {
		s := fnShort(f)
		if i := strings.Index(s, "["); i >= 0 {
			s = s[:i]
		}
		return s
	}
	return ""
}

func commonOf(i ssa.Instruction) *ssa.CallCommon {
	switch i := i.(type) {
	case *ssa.Call:
		return &i.Call
	case *ssa.Defer:
		return &i.Call
	case *ssa.Go:
		return &i.Call
	}
	return nil
}

// hintsAt proves and then assumes the hints of the function under verification attached to this call site.
func (x *Exec) hintsAt(st *State, site ssa.Instruction, after bool) {
	if x.spec == nil || len(x.spec.Hints) == 0 || st.fr == nil || st.dead {
		return
	}
	// the call sits in the function under verification or in a closure nested in it (range-over-func bodies)
	in := false
	for f := st.fr.fn; f != nil; f = f.Parent() {
		if f == x.top {
			in = true
			break
		}
	}
	if !in {
		return
	}
	cc := commonOf(site)
	if cc == nil {
		return
	}
	label := calleeLabel(cc)
	if label == "" {
		return
	}
	// occurrence number: calls of that callee are counted through the function under verification first and
	// then through its nested closures in declaration order
	k := 0
	found := false
	var walk func(f *ssa.Function)
	walk = func(f *ssa.Function) {
		for _, b := range f.Blocks {
			for _, i := range b.Instrs {
				if found {
					return
				}
				if c2 := commonOf(i); c2 != nil && calleeLabel(c2) == label {
					k++
				}
				if i == site {
					found = true
					return
				}
			}
		}
		for _, af := range f.AnonFuncs {
			if found {
				return
			}
			walk(af)
		}
	}
	walk(x.top)
	if !found {
		return
	}
	for _, h := range x.spec.Hints {
		if h.After != after || h.Callee != label || h.K != k {
			continue
		}
		env := x.frameEnv(st)
		if after {
			// the value the call returned is `result` (the variable it is assigned to is bound only afterwards)
			if v, ok := site.(ssa.Value); ok {
				if rv, ok := st.fr.vals[v]; ok {
					env.names = map[string]Val{"result": rv}
				}
			}
		}
		g := x.evalBool(env, h.C.E)
		when := "before"
		if after {
			when = "after"
		}
		x.oblige(st, fmt.Sprintf("hint:%s:%s#%d:%s", when, label, k, h.C.Label), "hint", h.C.Src, g)
		st.assume(g)
	}
}

func (x *Exec) invoke(st *State, site ssa.Instruction, c *ssa.CallCommon, fnv Val, args []Val, kind frameKind) {
	x.hintsAt(st, site, false)
	if b, ok := c.Value.(*ssa.Builtin); ok && !c.IsInvoke() {
		res := x.builtin(st, site, b, c, args)
		x.completeCall(st, site, kind, res)
		return
	}
	sig := c.Signature()
	if c.IsInvoke() {
		recv := fnv.(TV)
		x.safety(st, site, "nil", not(eq(recv.T, "0")))
		spec := x.P.ifaceSpec(c.Value.Type(), c.Method)
		if spec == nil {
			x.unknownCall(st, site, kind, sig, "iface "+types.TypeString(c.Value.Type(), shortQual)+"."+c.Method.Name())
			return
		}
		x.callSpec(st, site, kind, spec, nil, sig, append([]Val{recv}, args...), c.Value.Type())
		return
	}
	var cl CL
	switch f := fnv.(type) {
	case CL:
		cl = f
	case TV:
		if k, ok := x.P.closures[f.T]; ok {
			cl = k
		} else {
			// a function stored in a struct field may have a contract of its own: `iface T.field` (this = the struct)
			if u, ok := c.Value.(*ssa.UnOp); ok && u.Op == token.MUL {
				if fa, ok := u.X.(*ssa.FieldAddr); ok {
					structT := deref(fa.X.Type())
					if n, ok := structT.(*types.Named); ok {
						fld := under(structT).(*types.Struct).Field(fa.Field)
						if spec := x.P.fieldFuncSpec(n, fld.Name()); spec != nil {
							recv := x.val(st, fa.X)
							x.callSpec(st, site, kind, spec, nil, sig, append([]Val{recv}, args...), fa.X.Type())
							return
						}
					}
				}
			}
			// a value of a named function type may have a contract: `iface T.call` in T's package (this = the value)
			if n, ok := types.Unalias(c.Value.Type()).(*types.Named); ok {
				if _, isSig := n.Underlying().(*types.Signature); isSig {
					if spec := x.P.fieldFuncSpec(n, "call"); spec != nil {
						x.callSpec(st, site, kind, spec, nil, sig, append([]Val{f}, args...), n)
						return
					}
				}
			}
			x.unknownCall(st, site, kind, sig, "dynamic function value in "+fnShort(st.fr.fn))
			return
		}
	default:
		panic(unsupported(fmt.Sprintf("call of %T", fnv)))
	}
	fn := cl.Fn
	full := fn.String()
	if fn.Origin() != nil {
		full = fn.Origin().String()
	}
	switch full {
	case "fmt.Errorf":
		x.completeCall(st, site, kind, x.modelErrorf(st, c, args))
		return
	case "errors.As":
		if r, ok := x.modelErrorsAs(st, c, args); ok {
			x.completeCall(st, site, kind, r)
			return
		}
	}
	spec := x.P.funcSpec(fn)
	if spec != nil && !spec.Transparent {
		x.callSpec(st, site, kind, spec, fn, sig, args, nil)
		return
	}
	inRepo := fn.Pkg != nil && strings.HasPrefix(fn.Pkg.Pkg.Path(), x.P.Module) || fn.Parent() != nil && x.P.inModule(fn.Parent())
	if fn.Synthetic != "" && fn.Blocks != nil {
		inRepo = inRepo || x.P.inModule(fn)
	}
	if fn.Blocks != nil && (inRepo || (spec != nil && spec.Transparent)) && !(spec != nil && spec.Opaque) {
		if st.fr.depth > 14 || x.onStack(st, fn) {
			panic(unsupported("recursive or too deep inlining of " + fnShort(fn)))
		}
		x.inlined[fnShort(fn)] = true
		x.pushFrame(st, site, kind, cl, args, nil)
		return
	}
	x.unknownCall(st, site, kind, sig, full)
}

func shortQual(p *types.Package) string { return p.Name() }

func (x *Exec) pushFrame(st *State, site ssa.Instruction, kind frameKind, cl CL, args []Val, aux interface{}) {
	fn := cl.Fn
	nf := &Frame{fn: fn, vals: map[ssa.Value]Val{}, names: map[string]Val{}, parent: st.fr, block: fn.Blocks[0], kind: kind,
		callSite: site, aux: aux, variant: map[int]string{}, loopOld: map[int]Heap{}, depth: st.fr.depth + 1, closure: &cl, locals: map[*ssa.Alloc]Val{}}
	if len(args) != len(fn.Params) {
		panic(fmt.Sprintf("internal: %s: %d args for %d params", fn, len(args), len(fn.Params)))
	}
	for i, p := range fn.Params {
		nf.vals[p] = args[i]
		nf.names[p.Name()] = args[i]
	}
	for i, fv := range fn.FreeVars {
		nf.vals[fv] = cl.Bind[i]
		if tv, ok := cl.Bind[i].(TV); ok && isPointer(tv.Ty) {
			nf.names[fv.Name()] = nameAddr{tv.T, deref(tv.Ty)}
		} else {
			nf.names[fv.Name()] = cl.Bind[i]
		}
	}
	st.fr = nf
	st.trail = append(st.trail, "["+fnShort(fn))
}

func (x *Exec) resultVal(st *State, sig *types.Signature, hint string) Val {
	rs := sig.Results()
	switch rs.Len() {
	case 0:
		return nil
	case 1:
		return x.freshVal(st, rs.At(0).Type(), hint)
	}
	var tu TU
	for i := 0; i < rs.Len(); i++ {
		tu = append(tu, x.freshVal(st, rs.At(i).Type(), fmt.Sprintf("%s.%d", hint, i)))
	}
	return tu
}

func (x *Exec) unknownCall(st *State, site ssa.Instruction, kind frameKind, sig *types.Signature, what string) {
	x.unspec[what] = true
	// results unconstrained; allocation watermark may have moved
	w := x.freshInt("alloc")
	st.assume(le(st.alloc, w))
	st.alloc = w
	x.completeCall(st, site, kind, x.resultVal(st, sig, "r."+shorten(what, 20)))
}

// pendingSpecCall carries a contract call across the inline execution of its callback argument.
type pendingSpecCall struct {
	site  ssa.Instruction
	kind  frameKind
	spec  *FuncSpec
	fn    *ssa.Function
	sig   *types.Signature
	names map[string]Val
	tctx  *typeCtx
	old   Heap
	label string
}

func (x *Exec) specParamNames(spec *FuncSpec, fn *ssa.Function, sig *types.Signature, isIface bool) []string {
	var names []string
	if fn != nil && len(fn.Params) > 0 {
		for _, p := range fn.Params {
			names = append(names, p.Name())
		}
		if len(spec.Params) == len(names) {
			names = append([]string(nil), spec.Params...)
		}
		return names
	}
	if isIface {
		names = append(names, "this")
	} else if sig.Recv() != nil {
		n := sig.Recv().Name()
		if n == "" || n == "_" {
			n = "this"
		}
		names = append(names, n)
	}
	for i := 0; i < sig.Params().Len(); i++ {
		n := sig.Params().At(i).Name()
		if n == "" || n == "_" {
			n = fmt.Sprintf("arg%d", i)
		}
		names = append(names, n)
	}
	if len(spec.Params) > 0 {
		off := len(names) - len(spec.Params)
		if off < 0 {
			panic("spec " + spec.Name + ": too many params")
		}
		copy(names[off:], spec.Params)
	}
	return names
}

func (x *Exec) callSpec(st *State, site ssa.Instruction, kind frameKind, spec *FuncSpec, fn *ssa.Function, sig *types.Signature, args []Val, ifaceT types.Type) {
	label := spec.Name
	if fn != nil {
		label = fnShort(fn)
	}
	if spec.Trusted {
		x.trusted[spec.Name] = true
	} else {
		x.calledBy[spec.Name] = true
	}
	pnames := x.specParamNames(spec, fn, sig, ifaceT != nil)
	if len(pnames) != len(args) {
		panic(fmt.Sprintf("internal: spec %s: %d names for %d args", spec.Name, len(pnames), len(args)))
	}
	names := map[string]Val{}
	for i, n := range pnames {
		names[n] = args[i]
	}
	tctx := x.P.typeCtxFor(spec, fn)
	env := &Env{x: x, st: st, names: names, cur: st.H, old: st.H, tctx: tctx, entryNames: names, alloc: st.alloc}
	rank := callRank(st.fr.fn, site)
	for _, c := range spec.Requires {
		name := fmt.Sprintf("call#%d:%s.%s", rank, label, c.Label)
		if st.fr.fn != x.top {
			name += "@" + fnShort(st.fr.fn)
		}
		g := x.evalBool(env, c.E)
		x.oblige(st, name, "requires-at-call", c.Src, g)
		st.assume(g)
	}
	p := &pendingSpecCall{site: site, kind: kind, spec: spec, fn: fn, sig: sig, names: names, tctx: tctx, old: st.H.copy(), label: label}
	// callback clause: `ensures`/`requires` may mention `called`; the closure argument named in spec.Callback is run inline first
	if cbName := specCallback(spec); cbName != "" {
		// `callback:fn:nonnil`: the pointers the callee hands to the callback are never nil (part of the callee's trusted contract)
		cbNonNil := strings.HasSuffix(cbName, ":nonnil")
		cbName = strings.TrimSuffix(cbName, ":nonnil")
		if cl, ok := names[cbName].(CL); ok && cl.Fn.Blocks != nil {
			var cbArgs []Val
			for _, pp := range cl.Fn.Params {
				// pass through an argument of identical type from the outer call when there is one, else a fresh value
				var found Val
				for _, a := range args {
					if tv, ok := a.(TV); ok && types.Identical(tv.Ty, pp.Type()) {
						found = a
						break
					}
				}
				if found == nil {
					found = x.freshVal(st, pp.Type(), "cbarg")
					if tv, ok := found.(TV); ok && cbNonNil && isPointer(pp.Type()) {
						st.assume(not(eq(tv.T, "0")))
					}
				}
				cbArgs = append(cbArgs, found)
			}
			x.pushFrame(st, site, fkCallback, cl, cbArgs, p)
			return
		}
		x.warn("callback argument %s of %s is not a known closure", cbName, spec.Name)
	}
	x.finishSpecCall(st, p, nil)
}

func specCallback(spec *FuncSpec) string {
	for _, m := range spec.Modifies {
		if strings.HasPrefix(m, "callback:") {
			return strings.TrimPrefix(m, "callback:")
		}
	}
	return ""
}

func (x *Exec) finishSpecCall(st *State, p *pendingSpecCall, cbResult Val) {
	spec := p.spec
	// new allocation watermark first (the havocked heap may hold objects the callee allocated), then havoc the frame
	w := x.freshInt("alloc")
	st.assume(le(st.alloc, w))
	allocBefore := st.alloc
	st.alloc = w
	x.havocPatterns(st, spec.Modifies, p.tctx)
	res := x.resultVal(st, p.sig, "r."+shorten(p.label, 24))
	names := map[string]Val{}
	for k, v := range p.names {
		names[k] = v
	}
	bindResults(names, res, p.sig, p.fn)
	if cbResult != nil {
		names["called"] = cbResult
	}
	env := &Env{x: x, st: st, names: names, cur: st.H, old: p.old, tctx: p.tctx, entryNames: p.names, alloc: allocBefore}
	callerPkg := fnPkgPath(st.fr.fn)
	for _, c := range spec.Ensures {
		if strings.HasPrefix(c.Label, "_") && spec.Pkg != "" && spec.Pkg != callerPkg {
			continue // package-internal clause (low-level frame): not exported to callers in other packages
		}
		if c.NoExport {
			continue
		}
		st.assume(x.evalBool(env, c.E))
	}
	x.completeCall(st, p.site, p.kind, res)
}

func bindResults(names map[string]Val, res Val, sig *types.Signature, fn *ssa.Function) {
	rs := sig.Results()
	switch rs.Len() {
	case 0:
	case 1:
		names["result"] = res
		names["result0"] = res
		if n := rs.At(0).Name(); n != "" && n != "_" {
			names[n] = res
		}
	default:
		tu := res.(TU)
		names["result"] = tu[0]
		for i := range tu {
			names[fmt.Sprintf("result%d", i)] = tu[i]
			if n := rs.At(i).Name(); n != "" && n != "_" {
				names[n] = tu[i]
			}
		}
	}
}

// havocPatterns havocs the heap keys named by modifies patterns.
func (x *Exec) havocPatterns(st *State, pats []string, tctx *typeCtx) {
	keys := map[string]bool{}
	for _, p := range pats {
		if strings.HasPrefix(p, "callback:") {
			continue
		}
		if p == "*" {
			st.H = Heap{M: map[string]string{}, Epoch: x.P.nextEpoch()}
			return
		}
		for k := range x.patternKeys(p, tctx) {
			keys[k] = true
		}
	}
	for _, k := range sortedKeys(keys) {
		x.havocKey(st, k)
	}
}

// patternKeys resolves one modifies pattern to concrete heap keys.
//   T.f      field f of struct type T (all leaves if f is a struct; header if slice; the reference if map)
//   T.f[]    contents behind f: slice element memory / map contents
//   T.*      every field of T
//   mem[T]   element memory of []T      cell[T]  cells of type T     map[K]V  contents of that map type
//   ghost fields are addressed as T.name like real ones
func (x *Exec) patternKeys(p string, tctx *typeCtx) map[string]bool {
	out := map[string]bool{}
	seen := map[string]bool{}
	p = strings.TrimSpace(p)
	switch {
	case strings.HasPrefix(p, "mem["):
		t := x.P.resolveTypeStr(p[4:len(p)-1], tctx)
		x.elemKeys(t.Go, out, seen)
		return out
	case strings.HasPrefix(p, "cell["):
		t := x.P.resolveTypeStr(p[5:len(p)-1], tctx)
		x.leafKeysAt(cellKey(t.Go), t.Go, out, seen)
		return out
	case strings.HasPrefix(p, "map["):
		t := x.P.resolveTypeStr(p, tctx)
		x.mapContentKeys(t.Go, out, seen)
		return out
	}
	contents := strings.HasSuffix(p, "[]")
	p = strings.TrimSuffix(p, "[]")
	i := strings.LastIndex(p, ".")
	if i < 0 {
		panic("bad modifies pattern " + p)
	}
	tn, fn := p[:i], p[i+1:]
	t := x.P.resolveTypeStr(tn, tctx).Go
	st, ok := under(t).(*types.Struct)
	if !ok {
		panic("modifies pattern on non-struct " + tn)
	}
	if fn == "*" {
		x.leafKeys(t, "", out, seen)
		return out
	}
	if g := x.P.ghostField(t, fn); g != nil {
		for _, k := range x.ghostKeys(t, g, tctx) {
			out[k] = true
		}
		return out
	}
	for k := 0; k < st.NumFields(); k++ {
		f := st.Field(k)
		if f.Name() != fn {
			continue
		}
		if contents {
			switch u := under(f.Type()).(type) {
			case *types.Slice:
				x.elemKeys(u.Elem(), out, seen)
			case *types.Map:
				x.mapContentKeys(f.Type(), out, seen)
			default:
				panic("modifies " + p + "[]: not a slice or map field")
			}
		} else {
			x.leafKeysAt(fieldKey(t, f.Name()), f.Type(), out, seen)
		}
		return out
	}
	panic("modifies pattern: no field " + fn + " in " + tn)
}

func (x *Exec) mapContentKeys(mt types.Type, out map[string]bool, seen map[string]bool) {
	d, v, n := x.mapKeys(mt)
	out[d], out[n] = true, true
	mm := under(mt).(*types.Map)
	if isScalar(mm.Elem()) {
		out[v] = true
	} else {
		x.leafKeys(mm.Elem(), "", out, seen)
	}
}

// ---------- fmt.Errorf ----------

func (x *Exec) modelErrorf(st *State, c *ssa.CallCommon, args []Val) Val {
	x.useErr()
	r := x.newObj(st, "errorf") // a fresh error value: distinct from every value that existed before
	st.assume(not(eq(r, "0")))
	errT := types.Universe.Lookup("error").Type()
	format := ""
	known := false
	if k, ok := c.Args[0].(*ssa.Const); ok && k.Value != nil && k.Value.Kind() == constant.String {
		format, known = constant.StringVal(k.Value), true
	}
	var wrapped []string
	if known {
		if len(args) > 1 {
			sl := x.asSlice(args[1], c.Args[1].Type())
			anyT := under(sl.Ty).(*types.Slice).Elem()
			verb := 0
			for i := 0; i < len(format); i++ {
				if format[i] != '%' {
					continue
				}
				i++
				if i < len(format) && format[i] == '%' {
					continue
				}
				for i < len(format) && strings.ContainsRune("+-# 0123456789.", rune(format[i])) {
					i++
				}
				if i < len(format) && format[i] == 'w' {
					e := x.loadElem(st, st.H, anyT, sl.B, add(sl.O, intLit(int64(verb)))).(TV)
					wrapped = append(wrapped, e.T)
				}
				verb++
			}
		}
		var alts []string
		alts = append(alts, eq("t", r))
		for _, w := range wrapped {
			alts = append(alts, "(errIs "+w+" t)")
		}
		st.assume(fmt.Sprintf("(forall ((t Int)) (! (= (errIs %s t) %s) :pattern ((errIs %s t))))", r, or(alts...), r))
		x.useErrAs()
		switch len(wrapped) {
		case 0:
			st.assume(fmt.Sprintf("(forall ((t Int)) (! (not (errAsT %s t)) :pattern ((errAsT %s t))))", r, r))
		case 1:
			w := wrapped[0]
			st.assume(fmt.Sprintf("(forall ((t Int)) (! (and (= (errAsT %s t) (errAsT %s t)) (= (errAsV %s t) (errAsV %s t))) :pattern ((errAsT %s t)) :pattern ((errAsV %s t))))", r, w, r, w, r, r))
		}
	} else {
		x.warn("fmt.Errorf with non-constant format in %s", fnShort(st.fr.fn))
	}
	return TV{r, errT}
}

// errors.As(err, &target) with a statically known target type T: the answer is the uninterpreted
// errAsT(err, T); when true, *target receives the value asValOf(err, T) whose leaves are uninterpreted
// functions of errAsV(err, T).  fmt.Errorf("%w") wrappers answer like the error they wrap (modelErrorf).
func (x *Exec) modelErrorsAs(st *State, c *ssa.CallCommon, args []Val) (Val, bool) {
	mi, ok := c.Args[1].(*ssa.MakeInterface)
	if !ok {
		return nil, false
	}
	pt, ok := under(mi.X.Type()).(*types.Pointer)
	if !ok {
		return nil, false
	}
	T := pt.Elem()
	x.useIface()
	errv := args[0].(TV).T
	ptr := "(ival " + args[1].(TV).T + ")"
	r := x.errAsT(errv, T)
	nv := x.asValOf(st, errv, T)
	old := x.loadPtr(st, st.H, ptr, T)
	x.storePtr(st, ptr, T, x.iteVal(r, nv, old))
	st.assume(implies(r, not(eq(errv, "0"))))
	return TV{r, types.Typ[types.Bool]}, true
}

func (x *Exec) useErrAs() {
	x.reg.declare("errAsT", "(Int Int) Bool")
	x.reg.declare("errAsV", "(Int Int) Int")
	x.reg.axiom("errAsT", "nil", "(forall ((t Int)) (! (not (errAsT 0 t)) :pattern ((errAsT 0 t))))")
}

func (x *Exec) errAsT(errv string, T types.Type) string {
	x.useErrAs()
	return "(errAsT " + errv + " " + x.typeID(T) + ")"
}

// asValOf: the value errors.As would store for type T.
func (x *Exec) asValOf(st *State, errv string, T types.Type) Val {
	x.useErrAs()
	return x.ufVal(st, T, "as%"+typeKey(T), "(errAsV "+errv+" "+x.typeID(T)+")")
}

// ufVal builds a value of type t whose scalar leaves are uninterpreted functions of arg.
func (x *Exec) ufVal(st *State, t types.Type, base, arg string) Val {
	switch u := under(t).(type) {
	case *types.Struct:
		sv := SV{Ty: t}
		for i := 0; i < u.NumFields(); i++ {
			sv.F = append(sv.F, x.ufVal(st, u.Field(i).Type(), base+"."+u.Field(i).Name(), arg))
		}
		return sv
	case *types.Slice, *types.Array, *types.Tuple:
		panic(unsupported("errors.As target with slice/array fields"))
	default:
		if isFloat(t) {
			panic(unsupported("floating point"))
		}
		fn := "|" + base + "|"
		if isBool(t) {
			x.reg.declare(fn, "(Int) Bool")
			return TV{"(" + fn + " " + arg + ")", t}
		}
		x.reg.declare(fn, "(Int) Int")
		tv := TV{"(" + fn + " " + arg + ")", t}
		if lo, hi, ok := intRange(t); ok {
			x.reg.axiom(fn, "range", fmt.Sprintf("(forall ((a Int)) (! (and (<= %s (%s a)) (<= (%s a) %s)) :pattern ((%s a))))", lo, fn, fn, hi, fn))
		}
		if isString(t) {
			x.useStr()
		}
		return tv
	}
}

// iteVal: c ? a : b, leafwise.
func (x *Exec) iteVal(c string, a, b Val) Val {
	switch av := a.(type) {
	case SV:
		bv := b.(SV)
		out := SV{Ty: av.Ty}
		for i := range av.F {
			out.F = append(out.F, x.iteVal(c, av.F[i], bv.F[i]))
		}
		return out
	case TV:
		return TV{ite(c, av.T, b.(TV).T), av.Ty}
	}
	panic(unsupported(fmt.Sprintf("conditional value of %T", a)))
}

// ---------- builtins ----------

func (x *Exec) builtin(st *State, site ssa.Instruction, b *ssa.Builtin, c *ssa.CallCommon, args []Val) Val {
	intT := types.Typ[types.Int]
	switch b.Name() {
	case "len":
		switch a := args[0].(type) {
		case SL:
			return TV{a.L, intT}
		case AV:
			return TV{intLit(under(a.Ty).(*types.Array).Len()), intT}
		case TV:
			if isString(a.Ty) {
				x.useStr()
				return TV{"(strlen " + a.T + ")", intT}
			}
			if isMap(a.Ty) {
				return TV{x.mapLen(st, st.H, a.Ty, a.T), intT}
			}
			if a.T == "0" && isSlice(a.Ty) {
				return TV{"0", intT}
			}
			if isPointer(a.Ty) {
				return TV{intLit(under(deref(a.Ty)).(*types.Array).Len()), intT}
			}
		}
	case "cap":
		switch a := args[0].(type) {
		case SL:
			return TV{a.C, intT}
		case TV:
			if a.T == "0" {
				return TV{"0", intT}
			}
		}
	case "append":
		return x.builtinAppend(st, site, c, args)
	case "copy":
		return x.builtinCopy(st, c, args)
	case "delete":
		m := args[0].(TV)
		x.mapDelete(st, c.Args[0].Type(), m.T, x.scalar(args[1]))
		return nil
	case "clear":
		if isMap(c.Args[0].Type()) {
			m := args[0].(TV)
			mt := c.Args[0].Type()
			d, _, n := x.mapKeys(mt)
			ks := sortOf(under(mt).(*types.Map).Key())
			x.hset(st, d, store(x.hget(st.H, d), m.T, "((as const (Array "+ks+" Bool)) false)"))
			x.hset(st, n, store(x.hget(st.H, n), m.T, "0"))
			return nil
		}
	case "min", "max":
		r := args[0].(TV)
		for _, a := range args[1:] {
			o := a.(TV)
			if b.Name() == "min" {
				r = TV{ite(le(r.T, o.T), r.T, o.T), r.Ty}
			} else {
				r = TV{ite(le(o.T, r.T), r.T, o.T), r.Ty}
			}
		}
		return r
	case "print", "println":
		return nil
	case "ssa:wrapnilchk":
		x.safety(st, site, "nil", not(eq(args[0].(TV).T, "0")))
		return args[0]
	}
	panic(unsupported("builtin " + b.Name() + fmt.Sprintf(" on %T", args[0])))
}

// append without forking: the result header is an ite over "fits in place"; a
// fresh backing is allocated unconditionally and pre-filled with the old prefix.
func (x *Exec) builtinAppend(st *State, site ssa.Instruction, c *ssa.CallCommon, args []Val) Val {
	st0 := c.Args[0].Type()
	s := x.asSlice(args[0], st0)
	elem := under(st0).(*types.Slice).Elem()
	var tl string
	var srcElem func(j string) Val
	switch t := args[1].(type) {
	case SL:
		tl = t.L
		srcElem = func(j string) Val { return x.loadElem(st, st.H, elem, t.B, add(t.O, j)) }
	case TV:
		if t.T == "0" {
			return s
		}
		if isString(t.Ty) {
			x.useStr()
			tl = "(strlen " + t.T + ")"
			srcElem = func(j string) Val { return TV{"(strat " + t.T + " " + j + ")", elem} }
		} else {
			panic(unsupported("append arg"))
		}
	default:
		panic(unsupported("append arg"))
	}
	if tl == "0" {
		return s
	}
	fits := le(add(s.L, tl), s.C)
	nb := x.newObj(st, "grow")
	nc := x.freshInt("newcap")
	newLen := add(s.L, tl)
	st.assume(and(le(newLen, nc), le(nc, "4611686018427387904")))
	if lo, hi, ok := intRange(types.Typ[types.Int]); ok {
		_ = lo
		x.safety(st, site, "overflow", le(newLen, hi))
	}
	// prefix copy into the fresh backing
	x.copyRange(st, elem, nb, "0", s.B, s.O, s.L, true)
	var memBefore string
	if isScalar(elem) {
		memBefore = x.hget(st.H, x.memKey(elem))
	}
	rb, ro, rc := x.freshInt("app.b"), x.freshInt("app.o"), x.freshInt("app.c")
	st.assume(ite(fits, and(eq(rb, s.B), eq(ro, s.O), eq(rc, s.C)), and(eq(rb, nb), eq(ro, "0"), eq(rc, nc))))
	if isIntLiteral(tl) && len(tl) == 1 {
		n := int(tl[0] - '0')
		var vs []Val
		for j := 0; j < n; j++ {
			vs = append(vs, srcElem(intLit(int64(j))))
		}
		for j := 0; j < n; j++ {
			x.storeElem(st, elem, rb, add(add(ro, s.L), intLit(int64(j))), vs[j])
		}
		if isScalar(elem) {
			// redundant ground facts: they put the select terms of the new elements on the table for E-matching
			mk := x.memKey(elem)
			for j := 0; j < n; j++ {
				st.assume(eq(sel(sel(x.hget(st.H, mk), rb), add(add(ro, s.L), intLit(int64(j)))), x.scalar(vs[j])))
			}
		}
	} else {
		t := args[1].(SL)
		x.copyRange(st, elem, rb, add(ro, s.L), t.B, t.O, tl, false)
	}
	if isScalar(elem) {
		// prefix lemma with forward pattern: the old elements are the first elements of the result
		after := x.hget(st.H, x.memKey(elem))
		st.assume(fmt.Sprintf("(forall ((k!a Int)) (! (=> (and (<= %s k!a) (< k!a (+ %s %s))) (= (select (select %s %s) (+ %s (- k!a %s))) (select (select %s %s) k!a))) :pattern ((select (select %s %s) k!a))))",
			s.O, s.O, s.L, after, rb, ro, s.O, memBefore, s.B, memBefore, s.B))
		// and with backward pattern: an element of the result below the old length is an old element
		st.assume(fmt.Sprintf("(forall ((k!b Int)) (! (=> (and (<= %s k!b) (< k!b (+ %s %s))) (= (select (select %s %s) k!b) (select (select %s %s) (+ %s (- k!b %s))))) :pattern ((select (select %s %s) k!b))))",
			ro, ro, s.L, after, rb, memBefore, s.B, s.O, ro, after, rb))
	}
	return SL{rb, ro, newLen, rc, st0}
}

// copyRange: dst[dOff .. dOff+n) := src[sOff .. sOff+n) (memmove semantics), for scalar or struct elements.
func (x *Exec) copyRange(st *State, elem types.Type, dB, dOff, sB, sOff, n string, freshDst bool) {
	if n == "0" {
		return
	}
	switch under(elem).(type) {
	case *types.Struct:
		// per leaf field: new heap array with quantified definition over element objects
		keys := map[string]bool{}
		x.leafKeys(elem, "", keys, map[string]bool{})
		// Only flat structs of scalar leaves are supported here (model.File, model.Dir, badger.Item without nested structs).
		u := under(elem).(*types.Struct)
		for i := 0; i < u.NumFields(); i++ {
			f := u.Field(i)
			if !isScalar(f.Type()) {
				if isSlice(f.Type()) {
					for _, p := range []string{"#b", "#o", "#l", "#c"} {
						x.copyLeaf(st, elem, fieldKey(elem, f.Name())+p, "Int", dB, dOff, sB, sOff, n)
					}
					continue
				}
				panic(unsupported("copy of struct elements with nested field " + f.Name()))
			}
			x.copyLeaf(st, elem, fieldKey(elem, f.Name()), sortOf(f.Type()), dB, dOff, sB, sOff, n)
		}
	case *types.Slice:
		panic(unsupported("copy of slice elements"))
	default:
		mk := x.memKey(elem)
		cur := x.hget(st.H, mk)
		na := x.reg.fresh("copied")
		x.reg.declare(na, "(Array Int "+sortOf(elem)+")")
		src := sel(cur, sB)
		dst := sel(cur, dB)
		st.assume(fmt.Sprintf("(forall ((j Int)) (! (= (select %s j) (ite (and (<= %s j) (< j (+ %s %s))) (select %s (+ (- j %s) %s)) (select %s j))) :pattern ((select %s j))))",
			na, dOff, dOff, n, src, dOff, sOff, dst, na))
		x.hsetMem(st, mk, dB, "", na)
	}
}

func (x *Exec) copyLeaf(st *State, elem types.Type, key, sort, dB, dOff, sB, sOff, n string) {
	x.regKey(key, "(Array Int "+sort+")")
	cur := x.hget(st.H, key)
	nh := x.reg.fresh(key)
	x.reg.declare(nh, "(Array Int "+sort+")")
	x.elemObj(elem, "b", "j")
	ef := "|elem:" + typeKey(elem) + "|"
	fb := "|elemB:" + typeKey(elem) + "|"
	fi := "|elemI:" + typeKey(elem) + "|"
	// (1) every object that is not a destination element in range keeps its value;
	// (2) destination elements in range get the source value.  (Split so that instantiating (2)
	// creates no term that matches (2)'s own pattern unless source and destination backings coincide.)
	st.assume(fmt.Sprintf("(forall ((o Int)) (! (=> (not (and (= o (%s (%s o) (%s o))) (= (%s o) %s) (<= %s (%s o)) (< (%s o) (+ %s %s)))) (= (select %s o) (select %s o))) :pattern ((select %s o))))",
		ef, fb, fi, fb, dB, dOff, fi, fi, dOff, n, nh, cur, nh))
	st.assume(fmt.Sprintf("(forall ((j Int)) (! (=> (and (<= %s j) (< j (+ %s %s))) (= (select %s (%s %s j)) (select %s (%s %s (+ (- j %s) %s))))) :pattern ((%s %s j))))",
		dOff, dOff, n, nh, ef, dB, cur, ef, sB, dOff, sOff, ef, dB))
	// (3) a consequence of (1), cheap to use: objects of any other kind (fields embedded in other structs,
	// separately allocated objects) keep their value
	x.kindOf(ef)
	st.assume(fmt.Sprintf("(forall ((o Int)) (! (=> (not (= (okind o) %d)) (= (select %s o) (select %s o))) :pattern ((select %s o))))", x.kindOf(ef), nh, cur, nh))
	st.H.M[key] = nh
}

func (x *Exec) builtinCopy(st *State, c *ssa.CallCommon, args []Val) Val {
	dT := c.Args[0].Type()
	d := x.asSlice(args[0], dT)
	elem := under(dT).(*types.Slice).Elem()
	intT := types.Typ[types.Int]
	switch s := args[1].(type) {
	case SL:
		n := ite(le(d.L, s.L), d.L, s.L)
		x.copyRange(st, elem, d.B, d.O, s.B, s.O, n, false)
		return TV{n, intT}
	case TV:
		if isString(s.Ty) {
			x.useStr()
			sl := "(strlen " + s.T + ")"
			n := ite(le(d.L, sl), d.L, sl)
			mk := x.memKey(elem)
			cur := x.hget(st.H, mk)
			na := x.reg.fresh("copied")
			x.reg.declare(na, "(Array Int Int)")
			st.assume(fmt.Sprintf("(forall ((j Int)) (! (= (select %s j) (ite (and (<= %s j) (< j (+ %s %s))) (strat %s (- j %s)) (select %s j))) :pattern ((select %s j))))",
				na, d.O, d.O, n, s.T, d.O, sel(cur, d.B), na))
			x.hsetMem(st, mk, d.B, "", na)
			return TV{n, intT}
		}
		if s.T == "0" {
			return TV{"0", intT}
		}
	}
	panic(unsupported("copy source"))
}

// refineAt: where a concrete value is converted to an interface whose methods have contracts, the
// concrete methods' contracts must refine them (interface pre => implementation pre, implementation
// post => interface post).  This is where contracts cross the edges that unit-test mocks cut.
func (x *Exec) refineAt(st *State, ins *ssa.MakeInterface) {
	it, ok := under(ins.Type()).(*types.Interface)
	if !ok || it.NumMethods() == 0 {
		return
	}
	if _, named := ins.Type().(*types.Named); !named {
		return
	}
	T := ins.X.Type()
	for i := 0; i < it.NumMethods(); i++ {
		m := it.Method(i)
		specI := x.P.ifaceSpec(ins.Type(), m)
		if specI == nil {
			continue
		}
		sel := x.P.SSA.MethodSets.MethodSet(T).Lookup(m.Pkg(), m.Name())
		if sel == nil {
			continue
		}
		fn := x.P.SSA.MethodValue(sel)
		if fn == nil {
			continue
		}
		specT := x.P.funcSpec(fn)
		tag := fmt.Sprintf("refine:%s.%s<=%s", types.TypeString(ins.Type(), shortQual), m.Name(), fnShort(fn))
		if x.refined[tag] {
			continue
		}
		if x.refined == nil {
			x.refined = map[string]bool{}
		}
		x.refined[tag] = true
		if specT == nil {
			if len(specI.Ensures) > 0 {
				x.warn("%s: implementation has no contract (interface contract is assumed for it)", tag)
				x.noImpl = append(x.noImpl, tag)
			}
			continue
		}
		x.refineMethod(st.clone(), tag, ins, fn, specI, specT)
	}
}

func (x *Exec) refineMethod(st *State, tag string, ins *ssa.MakeInterface, fn *ssa.Function, specI, specT *FuncSpec) {
	sig := fn.Signature
	// fresh receiver and arguments
	recvT := fn.Params[0].Type()
	recv := x.freshVal(st, recvT, "impl")
	if tv, ok := recv.(TV); ok && isPointer(recvT) {
		st.assume(not(eq(tv.T, "0")))
	}
	args := []Val{recv}
	for _, p := range fn.Params[1:] {
		args = append(args, x.freshVal(st, p.Type(), "a."+p.Name()))
	}
	this := x.makeIface(st, recv, recvT, ins.Type())
	// environments
	nT := map[string]Val{}
	for i, n := range x.specParamNames(specT, fn, sig, false) {
		nT[n] = args[i]
	}
	isig := sig
	nI := map[string]Val{}
	inames := x.specParamNames(specI, nil, types.NewSignatureType(nil, nil, nil, isig.Params(), isig.Results(), isig.Variadic()), true)
	iargs := append([]Val{this}, args[1:]...)
	if len(inames) != len(iargs) {
		panic(specErr{tag + ": parameter mismatch"})
	}
	for i, n := range inames {
		nI[n] = iargs[i]
	}
	tctxI := x.P.typeCtxFor(specI, nil)
	tctxT := x.P.typeCtxFor(specT, fn)
	envI := &Env{x: x, st: st, names: nI, cur: st.H, old: st.H, tctx: tctxI, entryNames: nI, alloc: st.alloc}
	for _, c := range specI.Requires {
		st.assume(x.evalBool(envI, c.E))
	}
	envT := &Env{x: x, st: st, names: nT, cur: st.H, old: st.H, tctx: tctxT, entryNames: nT, alloc: st.alloc}
	for _, c := range specT.Requires {
		if c.Label == "inv" || c.Label == "deps" || c.Label == "wf" || c.Label == "unlocked" {
			// object invariant: established by the constructor and re-established by every method of the
			// implementation (each has `ensures inv`); that nothing else writes the representation in
			// between is the encapsulation assumption reported with the evidence.  `unlocked` (the calling
			// operation holds none of the store's locks on entry; every operation releases what it took) is
			// the same kind of entry condition
			st.assume(x.evalBool(envT, c.E))
			x.warn("object invariant of %s assumed at the interface boundary (encapsulation)", specT.Name)
			continue
		}
		x.oblige(st, tag+":pre:"+c.Label, "refinement", c.Src, x.evalBool(envT, c.E))
	}
	old := st.H.copy()
	allocBefore := st.alloc
	w := x.freshInt("alloc")
	st.assume(le(st.alloc, w))
	st.alloc = w
	// frame: the implementation may modify only what the interface contract allows
	kI, kT := map[string]bool{}, map[string]bool{}
	allI := false
	for _, p := range specI.Modifies {
		if p == "*" {
			allI = true
			continue
		}
		if strings.HasPrefix(p, "callback:") {
			continue
		}
		for k := range x.patternKeys(p, tctxI) {
			kI[k] = true
		}
	}
	var extra []string
	for _, p := range specT.Modifies {
		if p == "*" || strings.HasPrefix(p, "callback:") {
			continue
		}
		for k := range x.patternKeys(p, tctxT) {
			kT[k] = true
			if !kI[k] && !allI && strings.HasPrefix(k, "G%world%") && !strings.HasPrefix(k, "G%world%uc") && !strings.HasPrefix(k, "G%world%rdN") {
				extra = append(extra, k)
			}
		}
	}
	if len(extra) > 0 {
		x.oblige(st, tag+":modifies", "refinement", "implementation modifies abstract state the interface contract does not mention: "+strings.Join(extra, ", "), "false")
	}
	for _, k := range sortedKeys(kT) {
		x.havocKey(st, k)
	}
	res := x.resultVal(st, sig, "r.impl")
	rT := map[string]Val{}
	for k, v := range nT {
		rT[k] = v
	}
	bindResults(rT, res, sig, fn)
	envT2 := &Env{x: x, st: st, names: rT, cur: st.H, old: old, tctx: tctxT, entryNames: nT, alloc: allocBefore}
	for _, c := range specT.Ensures {
		if c.NoExport {
			continue
		}
		st.assume(x.evalBool(envT2, c.E))
	}
	rI := map[string]Val{}
	for k, v := range nI {
		rI[k] = v
	}
	bindResults(rI, res, types.NewSignatureType(nil, nil, nil, sig.Params(), unnamedResults(sig.Results()), sig.Variadic()), nil)
	envI2 := &Env{x: x, st: st, names: rI, cur: st.H, old: old, tctx: tctxI, entryNames: nI, alloc: allocBefore}
	for _, c := range specI.Ensures {
		if strings.HasPrefix(c.Label, "rec") {
			// observer clause: the interface contract records what the callee was called with and what it
			// answered (ghost world.uc*), for the postconditions of thin wrappers; not a duty of implementations
			continue
		}
		x.oblige(st, tag+":post:"+c.Label, "refinement", c.Src, x.evalBool(envI2, c.E))
	}
}

func unnamedResults(t *types.Tuple) *types.Tuple {
	var vs []*types.Var
	for i := 0; i < t.Len(); i++ {
		vs = append(vs, types.NewVar(0, nil, "", t.At(i).Type()))
	}
	return types.NewTuple(vs...)
}
