package vc

// Solver portfolio: z3 5.1.0 (z3-new), z3 4.8.12, cvc5 1.0.3, raced per query.

import (
	"sync/atomic"
	"runtime"
	"bytes"
	"context"
	"crypto/sha256"
	"encoding/hex"
	"encoding/json"
	"fmt"
	"os"
	"os/exec"
	"path/filepath"
	"strings"
	"sync"
	"time"
)

type Answer struct {
	Result string `json:"result"` // unsat | sat | unknown | timeout | error
	Solver string `json:"solver"`
	Ms     int64  `json:"ms"`
	Output string `json:"output,omitempty"`
	File   string `json:"file,omitempty"`
	Cached bool   `json:"cached,omitempty"`
}

type Solver struct {
	OutDir   string
	CacheOn  bool
	Timeout  time.Duration
	AllAgree bool // thorough: run every solver, report disagreements
	mu       sync.Mutex
	cache    map[string]Answer
	dirty    bool
	Stats    map[string]int
	TotalMs  int64
	CacheHits int // answers taken from the cache (their original solver time is included in TotalMs)
}

func NewSolver(outDir string, cacheOn bool, timeout time.Duration) *Solver {
	s := &Solver{OutDir: outDir, CacheOn: cacheOn, Timeout: timeout, cache: map[string]Answer{}, Stats: map[string]int{}}
	os.MkdirAll(filepath.Join(outDir, "q"), 0o755)
	if cacheOn {
		if b, err := os.ReadFile(filepath.Join(outDir, "cache.json")); err == nil {
			json.Unmarshal(b, &s.cache)
		}
	}
	return s
}

func (s *Solver) hit(a Answer) {
	s.mu.Lock()
	s.CacheHits++
	s.TotalMs += a.Ms
	s.mu.Unlock()
}

func (s *Solver) Save() {
	s.mu.Lock()
	defer s.mu.Unlock()
	if !s.dirty {
		return
	}
	b, _ := json.Marshal(s.cache)
	tmp := filepath.Join(s.OutDir, fmt.Sprintf("cache.json.%d", os.Getpid()))
	if os.WriteFile(tmp, b, 0o644) == nil {
		os.Rename(tmp, filepath.Join(s.OutDir, "cache.json"))
	}
}

// slots bounds the number of solver processes running at once: the solvers' own time limits are wall-clock,
// so an oversubscribed machine turns proofs into timeouts.
var slots = make(chan struct{}, runtime.NumCPU())

var solveSeq int64

// runOne runs one solver process; its time limit (sec, plus a grace period) starts when it gets a CPU slot.
func runOne(parent context.Context, name string, args []string, file string, sec int) (string, string) {
	r, out, _ := runOneT(parent, name, args, file, sec)
	return r, out
}

// runOneT also reports how long the process itself ran (not the time it waited for a CPU slot).
func runOneT(parent context.Context, name string, args []string, file string, sec int) (res string, otext string, ms int64) {
	select {
	case slots <- struct{}{}:
	case <-parent.Done():
		return "timeout", "cancelled before start", 0
	}
	defer func() { <-slots }()
	t0 := time.Now()
	defer func() { ms = time.Since(t0).Milliseconds() }()
	ctx, cancelT := context.WithTimeout(parent, time.Duration(sec+2)*time.Second)
	defer cancelT()
	cmd := exec.CommandContext(ctx, name, append(args, file)...)
	var out bytes.Buffer
	cmd.Stdout = &out
	cmd.Stderr = &out
	err := cmd.Run()
	text := out.String()
	first := ""
	for _, ln := range strings.Split(text, "\n") {
		ln = strings.TrimSpace(ln)
		if ln == "" || strings.HasPrefix(ln, "WARNING") || strings.HasPrefix(ln, "(warning") {
			continue
		}
		first = ln
		break
	}
	switch first {
	case "unsat", "sat", "unknown":
		return first, text, 0
	case "timeout":
		return "timeout", text, 0
	}
	if ctx.Err() != nil {
		return "timeout", text, 0
	}
	if err != nil && text == "" {
		return "error", err.Error(), 0
	}
	if strings.Contains(text, "timeout") || strings.Contains(text, "interrupted") {
		return "timeout", text, 0
	}
	return "error", text, 0
}

type solverCmd struct {
	name string
	bin  string
	args func(sec int) []string
}

var solverCmds = []solverCmd{
	{"z3-5.1.0", "z3-new", func(sec int) []string { return []string{fmt.Sprintf("-T:%d", sec)} }},
	// pure E-matching (no model-based instantiation): answers `unknown` at once when the triggers do not
	// reach a proof, and is often much faster than the default configuration when they do
	{"z3-5.1.0-ematch", "z3-new", func(sec int) []string {
		return []string{fmt.Sprintf("-T:%d", sec), "smt.auto_config=false", "smt.mbqi=false"}
	}},
	{"z3-4.8.12", "z3", func(sec int) []string { return []string{fmt.Sprintf("-T:%d", sec)} }},
	{"cvc5-1.0.3", "cvc5", func(sec int) []string { return []string{fmt.Sprintf("--tlimit=%d", sec*1000)} }},
}

// Solve decides one query.
func (s *Solver) Solve(query string) Answer {
	h := sha256.Sum256([]byte(query))
	key := hex.EncodeToString(h[:12])
	file := filepath.Join(s.OutDir, "q", key+".smt2")
	if s.CacheOn {
		s.mu.Lock()
		a, ok := s.cache[key]
		s.mu.Unlock()
		if ok && (a.Result == "unsat" || a.Result == "sat") {
			s.hit(a)
			a.Cached = true
			a.File = file
			if _, err := os.Stat(file); err != nil {
				os.WriteFile(file, []byte(query), 0o644)
			}
			return a
		}
	}
	os.WriteFile(file, []byte(query), 0o644)
	start := time.Now()
	ans := s.race(file)
	ans.Ms = time.Since(start).Milliseconds()
	ans.File = file
	s.mu.Lock()
	s.Stats[ans.Solver+":"+ans.Result]++
	s.TotalMs += ans.Ms
	if ans.Result == "unsat" || ans.Result == "sat" {
		c := ans
		c.Output, c.File = "", ""
		s.cache[key] = c
		s.dirty = true
	}
	s.mu.Unlock()
	return ans
}

func (s *Solver) race(file string) Answer {
	sec := int(s.Timeout.Seconds())
	if sec < 1 {
		sec = 1
	}
	// stage 1: the newest z3 alone, briefly (decides most queries in milliseconds)
	if !s.AllAgree {
		quick := 2
		if quick > sec {
			quick = sec
		}
		ctx, cancel := context.WithCancel(context.Background())
		type r1 struct{ r, out, name string }
		c1 := make(chan r1, 2)
		for _, sc := range solverCmds[:2] {
			sc := sc
			go func() {
				r, out := runOne(ctx, sc.bin, sc.args(quick), file, quick)
				c1 <- r1{r, out, sc.name}
			}()
		}
		for i := 0; i < 2; i++ {
			a := <-c1
			if a.r == "unsat" || a.r == "sat" {
				cancel()
				return Answer{Result: a.r, Solver: a.name, Output: a.out}
			}
		}
		cancel()
	}
	type res struct {
		r, out, solver string
	}
	ctx, cancel := context.WithCancel(context.Background())
	defer cancel()
	ch := make(chan res, len(solverCmds))
	for _, sc := range solverCmds {
		sc := sc
		go func() {
			r, out := runOne(ctx, sc.bin, sc.args(sec), file, sec)
			ch <- res{r, out, sc.name}
		}()
	}
	var all []res
	best := Answer{Result: "timeout", Solver: "all"}
	for range solverCmds {
		r := <-ch
		all = append(all, r)
		if r.r == "unsat" || r.r == "sat" {
			if !s.AllAgree {
				cancel()
				return Answer{Result: r.r, Solver: r.solver, Output: r.out}
			}
			if best.Result == "unsat" || best.Result == "sat" {
				if best.Result != r.r {
					return Answer{Result: "error", Solver: "disagreement", Output: fmt.Sprintf("%s says %s, %s says %s", best.Solver, best.Result, r.solver, r.r)}
				}
				best.Solver += "+" + r.solver
			} else {
				best = Answer{Result: r.r, Solver: r.solver, Output: r.out}
			}
		} else if best.Result != "unsat" && best.Result != "sat" {
			if r.r == "unknown" {
				best = Answer{Result: "unknown", Solver: r.solver, Output: r.out}
			} else if r.r == "error" && best.Result == "timeout" {
				best = Answer{Result: "error", Solver: r.solver, Output: r.out}
			}
		}
	}
	return best
}

// Probe runs only the newest z3 for at most sec seconds (used for vacuity covers,
// where anything but `unsat` is acceptable).
func (s *Solver) Probe(query string, sec int) Answer {
	h := sha256.Sum256([]byte(query))
	key := "p" + hex.EncodeToString(h[:12])
	file := filepath.Join(s.OutDir, "q", key+".smt2")
	if s.CacheOn {
		s.mu.Lock()
		a, ok := s.cache[key]
		s.mu.Unlock()
		if ok {
			a.Cached = true
			return a
		}
	}
	os.WriteFile(file, []byte(query), 0o644)
	ctx, cancel := context.WithCancel(context.Background())
	defer cancel()
	r, _ := runOne(ctx, solverCmds[0].bin, solverCmds[0].args(sec), file, sec)
	a := Answer{Result: r, Solver: solverCmds[0].name, File: file}
	s.mu.Lock()
	s.cache[key] = a
	s.dirty = true
	s.mu.Unlock()
	return a
}

// SolveEither decides a goal that has two equivalent formulations: both are raced (newest z3 on each);
// the first definite answer wins.  Falls back to the full portfolio on the first formulation.
func (s *Solver) SolveEither(q1, q2 string) Answer {
	type res struct {
		a   Answer
		idx int
	}
	keyOf := func(q string) (string, string) {
		h := sha256.Sum256([]byte(q))
		k := hex.EncodeToString(h[:12])
		return k, filepath.Join(s.OutDir, "q", k+".smt2")
	}
	k1, f1 := keyOf(q1)
	k2, f2 := keyOf(q2)
	if s.CacheOn {
		s.mu.Lock()
		a1, ok1 := s.cache[k1]
		a2, ok2 := s.cache[k2]
		s.mu.Unlock()
		if ok1 && a1.Result == "unsat" {
			s.hit(a1)
			a1.Cached, a1.File = true, f1
			return a1
		}
		if ok2 && a2.Result == "unsat" {
			s.hit(a2)
			a2.Cached, a2.File = true, f2
			return a2
		}
	}
	os.WriteFile(f1, []byte(q1), 0o644)
	os.WriteFile(f2, []byte(q2), 0o644)
	sec := int(s.Timeout.Seconds())
	start := time.Now()
	ctx, cancel := context.WithCancel(context.Background())
	defer cancel()
	ch := make(chan res, 4)
	for i, f := range []string{f1, f2} {
		for _, sc := range solverCmds[:2] {
			i, f, sc := i, f, sc
			go func() {
				r, out := runOne(ctx, sc.bin, sc.args(sec), f, sec)
				ch <- res{Answer{Result: r, Solver: sc.name, Output: out, File: f}, i}
			}()
		}
	}
	best := Answer{Result: "timeout", Solver: "all", File: f1}
	for n := 0; n < 4; n++ {
		r := <-ch
		if r.a.Result == "unsat" || r.a.Result == "sat" {
			cancel()
			r.a.Ms = time.Since(start).Milliseconds()
			s.mu.Lock()
			s.Stats[r.a.Solver+":"+r.a.Result]++
			s.TotalMs += r.a.Ms
			c := r.a
			c.Output, c.File = "", ""
			if r.idx == 0 {
				s.cache[k1] = c
			} else {
				s.cache[k2] = c
			}
			s.dirty = true
			s.mu.Unlock()
			return r.a
		}
		if r.a.Result == "unknown" {
			best = r.a
		}
	}
	// neither formulation decided by the newest z3: full portfolio on the first one
	a := s.Solve(q1)
	if a.Result == "unsat" || a.Result == "sat" {
		return a
	}
	best.Ms = time.Since(start).Milliseconds()
	return best
}

// SolveQuick: newest z3 only, `sec` seconds; used for the sliced attempts (only `unsat` counts).
func (s *Solver) SolveQuick(query string, sec int) Answer {
	h := sha256.Sum256([]byte(query))
	key := hex.EncodeToString(h[:12])
	file := filepath.Join(s.OutDir, "q", key+".smt2")
	if s.CacheOn {
		s.mu.Lock()
		a, ok := s.cache[key]
		s.mu.Unlock()
		if ok && a.Result == "unsat" {
			s.hit(a)
			a.Cached, a.File = true, file
			return a
		}
	}
	os.WriteFile(file, []byte(query), 0o644)
	start := time.Now()
	ctx, cancel := context.WithCancel(context.Background())
	defer cancel()
	r, out := runOne(ctx, solverCmds[1].bin, solverCmds[1].args(sec), file, sec)
	if r != "unsat" {
		r, out = runOne(ctx, solverCmds[0].bin, solverCmds[0].args(sec), file, sec)
	}
	a := Answer{Result: r, Solver: solverCmds[0].name + "/sliced", Output: out, File: file, Ms: time.Since(start).Milliseconds()}
	if r == "unsat" {
		s.mu.Lock()
		s.Stats[a.Solver+":unsat"]++
		s.TotalMs += a.Ms
		c := a
		c.Output, c.File = "", ""
		s.cache[key] = c
		s.dirty = true
		s.mu.Unlock()
	}
	return a
}

// Variant is one formulation of a proof obligation: the full query, or a lighter one (fewer hypotheses).
// A proof of a lighter variant is a proof of the obligation; only the full query can refute it.
type Variant struct {
	Name  string
	Query string
	Full  bool
}

// SolvePortfolio decides one obligation given several formulations.  Stage A runs the first two light
// variants briefly with pure E-matching (most obligations end here in milliseconds); stage B races every
// variant under both z3 configurations, and the full ones under the older z3 and cvc5 as well, for the
// full time limit.  The first `unsat` wins; `sat` counts only from a full variant.
func (s *Solver) SolvePortfolio(vs []Variant) Answer {
	var fullQ string
	for _, v := range vs {
		if v.Full {
			fullQ += v.Query
		}
	}
	h := sha256.Sum256([]byte(fullQ))
	key := hex.EncodeToString(h[:12])
	file := filepath.Join(s.OutDir, "q", key+".smt2")
	if s.CacheOn {
		s.mu.Lock()
		a, ok := s.cache[key]
		s.mu.Unlock()
		if ok && (a.Result == "unsat" || a.Result == "sat") {
			s.hit(a)
			a.Cached, a.File = true, file
			return a
		}
	}
	start := time.Now()
	// file names are unique per call: the same query can be in flight for two obligations at once, and each
	// call removes its own files when it is done
	uniq := atomic.AddInt64(&solveSeq, 1)
	file = filepath.Join(s.OutDir, "q", fmt.Sprintf("%s.%d.smt2", key, uniq))
	files := make([]string, len(vs))
	firstFull := true
	for i, v := range vs {
		if v.Full && firstFull {
			files[i] = file
			firstFull = false
		} else {
			files[i] = filepath.Join(s.OutDir, "q", fmt.Sprintf("%s.%d.v%d.smt2", key, uniq, i))
		}
		os.WriteFile(files[i], []byte(v.Query), 0o644)
	}
	proved := false
	defer func() {
		if os.Getenv("GOVC_KEEP") != "" {
			return
		}
		for _, f := range files {
			// the full query is kept only when it was not proved (for diagnosis and replay)
			if f != file || proved {
				os.Remove(f)
			}
		}
	}()
	sec := int(s.Timeout.Seconds())
	if sec < 1 {
		sec = 1
	}
	type res struct {
		r, out, solver string
		full           bool
		ms             int64
		file           string
	}
	finish := func(r res) Answer {
		if s.AllAgree && r.r == "unsat" && r.file != "" {
			// thorough tier: a second solver of another family looks at the same formulation
			other := solverCmds[3] // cvc5
			if strings.HasPrefix(r.solver, "cvc5") {
				other = solverCmds[0]
			}
			cr, _, _ := runOneT(context.Background(), other.bin, other.args(20), r.file, 20)
			s.mu.Lock()
			switch cr {
			case "unsat":
				s.Stats["crosscheck:agree"]++
			case "sat":
				s.Stats["crosscheck:DISAGREE"]++
			default:
				s.Stats["crosscheck:no-answer"]++
			}
			s.mu.Unlock()
			if cr == "sat" {
				r = res{r: "error", solver: "disagreement:" + r.solver + "-unsat/" + other.name + "-sat", out: "solvers disagree on " + r.file, full: r.full}
			}
		}
		proved = r.r == "unsat"
		a := Answer{Result: r.r, Solver: r.solver, Output: r.out, File: file, Ms: r.ms}
		if r.r != "unsat" && r.r != "sat" {
			a.Ms = time.Since(start).Milliseconds()
		}
		s.mu.Lock()
		s.Stats[a.Solver+":"+a.Result]++
		s.TotalMs += a.Ms
		if a.Result == "unsat" || a.Result == "sat" {
			c := a
			c.Output, c.File = "", ""
			s.cache[key] = c
			s.dirty = true
		}
		s.mu.Unlock()
		return a
	}
	// stage A
	{
		ctx, cancel := context.WithCancel(context.Background())
		n := 0
		ch := make(chan res, 4)
		launch := func(i int, sc solverCmd) {
			n++
			v := vs[i]
			go func() {
				r, out, ms := runOneT(ctx, sc.bin, sc.args(2), files[i], 2)
				ch <- res{r, out, sc.name + "/" + v.Name, v.Full, ms, files[i]}
			}()
		}
		for i, v := range vs {
			if !v.Full && n < 2 {
				launch(i, solverCmds[1])
			}
		}
		if n == 0 {
			for i, v := range vs {
				if v.Full {
					launch(i, solverCmds[1])
					launch(i, solverCmds[0])
					break
				}
			}
		}
		var done *res
		for k := 0; k < n; k++ {
			r := <-ch
			if done == nil && (r.r == "unsat" || (r.r == "sat" && r.full && !strings.Contains(r.solver, "ematch"))) {
				rr := r
				done = &rr
				cancel()
			}
		}
		cancel()
		if done != nil {
			return finish(*done)
		}
	}
	// stage B
	ctx, cancel := context.WithCancel(context.Background())
	defer cancel()
	total := 0
	ch := make(chan res, 4*len(vs))
	for i, v := range vs {
		cmds := solverCmds[:2]
		if v.Full {
			cmds = solverCmds
		}
		for _, sc := range cmds {
			total++
			i, v, sc := i, v, sc
			go func() {
				r, out, ms := runOneT(ctx, sc.bin, sc.args(sec), files[i], sec)
				ch <- res{r, out, sc.name + "/" + v.Name, v.Full, ms, files[i]}
			}()
		}
	}
	best := res{r: "timeout", solver: "all"}
	for k := 0; k < total; k++ {
		r := <-ch
		if r.r == "unsat" || (r.r == "sat" && r.full && !strings.Contains(r.solver, "ematch")) {
			cancel()
			return finish(r)
		}
		if r.full && r.r == "unknown" && best.r == "timeout" {
			best = r
		}
	}
	return finish(best)
}
