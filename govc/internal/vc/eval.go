package vc

// Evaluation of contract expressions to SMT terms over a symbolic state.

import (
	"fmt"
	"go/constant"
	"go/types"
	"sort"
	"strings"

	"golang.org/x/tools/go/ssa"
)

type Env struct {
	x          *Exec
	st         *State // may be nil (no side assumptions)
	names      map[string]Val
	entryNames map[string]Val
	frame      *Frame
	cur, old   Heap
	tctx       *typeCtx
	qv         []map[string]Val
	qnames     []string
	alloc      string
	depth      int
	iterSeen   func() (string, bool)
	inOld      bool
	now        *Heap // the real current heap (local variables are always read from it, also inside old())
	inQuant    int // >0: evaluating under a quantifier (bound variables may occur in terms, also inside expanded spec functions)
}

func (x *Exec) topEnv(st *State) *Env {
	return &Env{x: x, st: st, names: x.entry, entryNames: x.entry, cur: st.H, old: Heap{}, tctx: x.P.typeCtxFor(x.spec, x.top), alloc: "|alloc@0|"}
}

// frameEnv: environment for loop invariants: names resolved through the frame chain.
func (x *Exec) frameEnv(st *State) *Env {
	return &Env{x: x, st: st, names: nil, frame: st.fr, entryNames: x.entry, cur: st.H, old: Heap{}, tctx: x.P.typeCtxFor(nil, st.fr.fn), alloc: "|alloc@0|"}
}

func (e *Env) errf(format string, a ...interface{}) {
	panic(specErr{fmt.Sprintf(format, a...)})
}

type specErr struct{ msg string }

func (s specErr) Error() string { return "contract: " + s.msg }

func (e *Env) lookup(name string) (Val, bool) {
	for i := len(e.qv) - 1; i >= 0; i-- {
		if v, ok := e.qv[i][name]; ok {
			return v, true
		}
	}
	if e.names != nil {
		if v, ok := e.names[name]; ok {
			return v, true
		}
	}
	for fr := e.frame; fr != nil; fr = fr.parent {
		if v, ok := fr.names[name]; ok {
			if lr, isLocal := v.(localRef); isLocal {
				return e.x.localGet(fr, lr), true
			}
			return v, true
		}
	}
	return nil, false
}

// factState returns a scratch state that collects heap well-formedness facts (range of
// loaded integers, "pointers stored in the heap designate objects allocated earlier")
// for loads of closed terms; commit() adds them to the real path condition.
func (e *Env) factState() (*State, func()) {
	if e.st == nil || len(e.qv) > 0 || e.inQuant > 0 {
		return nil, func() {}
	}
	w := e.st.alloc
	if e.inOld {
		w = e.alloc
	}
	tmp := &State{alloc: w}
	return tmp, func() {
		for _, f := range tmp.pc {
			e.st.assume(f)
		}
	}
}

func (e *Env) resolveNameVal(v Val, h Heap) Val {
	if e.now != nil {
		h = *e.now // a local variable has no pre-state: its name denotes its current value
	}
	switch a := v.(type) {
	case nameAddr:
		fs, commit := e.factState()
		defer commit()
		return e.x.loadPtr(fs, h, a.ref, a.ty)
	case AD:
		fs, commit := e.factState()
		defer commit()
		return e.x.loadFrom(fs, h, a, deref(a.Ty))
	}
	return v
}

func (x *Exec) evalBool(env *Env, e Expr) string {
	v := env.eval(e)
	tv, ok := v.(TV)
	if !ok || !isBool(tv.Ty) {
		env.errf("boolean expected, got %T in %s", v, exprString(e))
	}
	return tv.T
}

func (x *Exec) evalInt(env *Env, e Expr) string {
	v := env.eval(e)
	tv, ok := v.(TV)
	if !ok {
		env.errf("integer expected")
	}
	return tv.T
}

// backingT is the pseudo struct type of slice backing stores (so that ghost fields can be attached to them).
var backingT = types.NewNamed(types.NewTypeName(0, nil, "backing", nil), types.NewStruct(nil, nil), nil)

// maprefT is the pseudo struct type of map objects (so that ghost fields, e.g. an owner, can be attached to them).
var maprefT = types.NewNamed(types.NewTypeName(0, nil, "mapref", nil), types.NewStruct(nil, nil), nil)

// worldT is the pseudo struct type of the single ghost object `world` that carries ghost state which belongs
// to no Go object (abstract views of durable state, registries seen through interfaces).
var worldT = types.NewNamed(types.NewTypeName(0, nil, "world", nil), types.NewStruct(nil, nil), nil)

var (
	tInt  = types.Typ[types.Int]
	tBool = types.Typ[types.Bool]
	tStr  = types.Typ[types.String]
)

func boolTV(t string) TV { return TV{t, tBool} }

func (e *Env) eval(ex Expr) Val {
	x := e.x
	switch ex := ex.(type) {
	case *IntLit:
		return TV{ex.V, tInt}
	case *BoolLit:
		if ex.V {
			return boolTV("true")
		}
		return boolTV("false")
	case *StrLit:
		return TV{x.strLit(ex.V), tStr}
	case *NilLit:
		return TV{"0", types.Typ[types.UntypedNil]}
	case *Ident:
		if v, ok := e.lookup(ex.Name); ok {
			return e.resolveNameVal(v, e.cur)
		}
		if ex.Name == "$range" {
			// the map being ranged over by the current loop
			if it := e.currentIter(); it != nil {
				return TV{it.m, it.mty}
			}
			e.errf("$range outside a map range loop")
		}
		if ex.Name == "world" {
			x.reg.declare("|world|", "Int")
			x.reg.axiom("|world|", "nn", "(not (= |world| 0))")
			return TV{"|world|", types.NewPointer(worldT)}
		}
		if v, ok := e.pkgObject(e.tctx.pkg, ex.Name); ok {
			return v
		}
		e.errf("unknown name %q", ex.Name)
	case *Unary:
		switch ex.Op {
		case "!":
			return boolTV(not(x.evalBool(e, ex.X)))
		case "-":
			return TV{"(- " + x.evalInt(e, ex.X) + ")", tInt}
		case "*":
			v := e.eval(ex.X)
			tv, ok := v.(TV)
			if !ok || !isPointer(tv.Ty) {
				e.errf("deref of non-pointer")
			}
			fs, commit := e.factState()
			defer commit()
			return x.loadPtr(fs, e.cur, tv.T, deref(tv.Ty))
		case "&":
			return e.addrOf(ex.X)
		}
	case *Binary:
		return e.evalBinary(ex)
	case *Sel:
		if id, ok := ex.X.(*Ident); ok {
			if _, bound := e.lookup(id.Name); !bound {
				if p := e.tctx.importByName(id.Name); p != nil {
					if v, ok := e.pkgObject(p, ex.F); ok {
						return v
					}
					e.errf("unknown name %s.%s (no such package member, and no local of that name in scope)", id.Name, ex.F)
				}
			}
		}
		return e.selectField(e.eval(ex.X), ex.F)
	case *Index:
		return e.index(e.eval(ex.X), e.eval(ex.I))
	case *SliceE:
		base := e.eval(ex.X)
		var lo, hi string
		if ex.Lo != nil {
			lo = x.evalInt(e, ex.Lo)
		}
		if ex.Hi != nil {
			hi = x.evalInt(e, ex.Hi)
		}
		switch b := base.(type) {
		case SL:
			if lo == "" {
				lo = "0"
			}
			if hi == "" {
				hi = b.L
			}
			return SL{b.B, add(b.O, lo), sub(hi, lo), sub(b.C, lo), b.Ty}
		case SQ:
			if lo == "" {
				lo = "0"
			}
			if hi == "" {
				hi = b.L
			}
			return SQ{b.A, add(b.O, lo), sub(hi, lo), b.Elem}
		}
		e.errf("cannot slice %T", base)
	case *CallE:
		return e.call(ex)
	case *Quant:
		return e.quant(ex)
	case *SeqLit:
		e.errf("sequence literal only allowed on the right of ++")
	}
	e.errf("cannot evaluate %T", ex)
	return nil
}

func (e *Env) addrOf(ex Expr) Val {
	x := e.x
	switch t := ex.(type) {
	case *Sel:
		base := e.eval(t.X)
		tv, ok := base.(TV)
		if !ok {
			e.errf("& of field of non-object")
		}
		var structT types.Type
		if isPointer(tv.Ty) {
			structT = deref(tv.Ty)
		} else {
			e.errf("& needs pointer base")
		}
		st, ok := under(structT).(*types.Struct)
		if !ok {
			e.errf("& of field of non-struct")
		}
		for i := 0; i < st.NumFields(); i++ {
			if st.Field(i).Name() == t.F {
				if !isStruct(st.Field(i).Type()) {
					e.errf("& only of struct-typed fields")
				}
				return TV{x.subObj(structT, t.F, tv.T), types.NewPointer(st.Field(i).Type())}
			}
		}
	case *Ident:
		if v, ok := e.lookup(t.Name); ok {
			if na, ok := v.(nameAddr); ok {
				return TV{na.ref, types.NewPointer(na.ty)}
			}
		}
	case *Index:
		base := e.eval(t.X)
		if sl, ok := base.(SL); ok {
			elem := under(sl.Ty).(*types.Slice).Elem()
			if isStruct(elem) {
				return TV{x.elemObj(elem, sl.B, add(sl.O, x.evalInt(e, t.I))), types.NewPointer(elem)}
			}
		}
	}
	e.errf("unsupported address-of")
	return nil
}

// pkgObject: package-level constant / variable / sentinel.
func (e *Env) pkgObject(p *types.Package, name string) (Val, bool) {
	if p == nil {
		return nil, false
	}
	obj := p.Scope().Lookup(name)
	if obj == nil {
		return nil, false
	}
	x := e.x
	switch o := obj.(type) {
	case *types.Const:
		switch o.Val().Kind() {
		case constant.Int:
			s := o.Val().ExactString()
			if strings.HasPrefix(s, "-") {
				s = "(- " + s[1:] + ")"
			}
			return TV{s, o.Type()}, true
		case constant.String:
			return TV{x.strLit(constant.StringVal(o.Val())), o.Type()}, true
		case constant.Bool:
			if constant.BoolVal(o.Val()) {
				return boolTV("true"), true
			}
			return boolTV("false"), true
		}
	case *types.Var:
		g := x.P.globalFor(o)
		if g == nil {
			return nil, false
		}
		if x.P.isPlainSentinel(g) {
			if e.st != nil {
				return TV{x.sentinel(e.st, g), o.Type()}, true
			}
			x.useErr()
			nm := "|err:" + sanitize(g.Pkg.Pkg.Path()+"."+g.Name()) + "|"
			x.reg.declare(nm, "Int")
			return TV{nm, o.Type()}, true
		}
		ref := x.globalRef(g)
		if isStruct(o.Type()) {
			// denote the object itself (auto-deref on selection)
			return TV{ref, types.NewPointer(o.Type())}, true
		}
		fs, commit := e.factState()
		defer commit()
		return x.loadPtr(fs, e.cur, ref, o.Type()), true
	}
	return nil, false
}

func (e *Env) selectField(base Val, f string) Val {
	x := e.x
	switch b := base.(type) {
	case SV:
		st := under(b.Ty).(*types.Struct)
		for i := 0; i < st.NumFields(); i++ {
			if st.Field(i).Name() == f {
				return b.F[i]
			}
		}
		// promoted through embedded fields
		for i := 0; i < st.NumFields(); i++ {
			if st.Field(i).Embedded() {
				if sv, ok := b.F[i].(SV); ok {
					if st2, ok := under(sv.Ty).(*types.Struct); ok {
						for j := 0; j < st2.NumFields(); j++ {
							if st2.Field(j).Name() == f {
								return sv.F[j]
							}
						}
					}
				}
			}
		}
		e.errf("no field %s in %s", f, b.Ty)
	case TV:
		if !isPointer(b.Ty) {
			e.errf("selector .%s on non-pointer scalar of type %s", f, b.Ty)
		}
		structT := deref(b.Ty)
		if g := x.P.ghostField(structT, f); g != nil {
			return e.ghostLoad(structT, g, b.T)
		}
		st, ok := under(structT).(*types.Struct)
		if !ok {
			e.errf("selector .%s on pointer to %s", f, structT)
		}
		for i := 0; i < st.NumFields(); i++ {
			fld := st.Field(i)
			if fld.Name() == f {
				if isStruct(fld.Type()) {
					// stay at object level: pointer to the embedded struct
					return TV{x.subObj(structT, f, b.T), types.NewPointer(fld.Type())}
				}
				fs, commit := e.factState()
				defer commit()
				return x.loadField(fs, e.cur, structT, fld, b.T)
			}
		}
		e.errf("no field %s in %s", f, structT)
	case SL:
		switch f {
		case "len":
			return TV{b.L, tInt}
		}
	}
	e.errf("cannot select .%s from %T", f, base)
	return nil
}

func (e *Env) index(base, idx Val) Val {
	x := e.x
	i := x.scalar(idx)
	switch b := base.(type) {
	case SL:
		elem := under(b.Ty).(*types.Slice).Elem()
		if isStruct(elem) {
			return TV{x.elemObj(elem, b.B, add(b.O, i)), types.NewPointer(elem)}
		}
		fs, commit := e.factState()
		defer commit()
		return x.loadElem(fs, e.cur, elem, b.B, add(b.O, i))
	case SQ:
		return TV{sel(b.A, add(b.O, i)), b.Elem.Go}
	case AV:
		return TV{sel(b.A, i), under(b.Ty).(*types.Array).Elem()}
	case ST:
		return boolTV(sel(b.A, i))
	case GM:
		return TV{sel(b.A, i), b.Elem}
	case TV:
		if isMap(b.Ty) {
			mm := under(b.Ty).(*types.Map)
			if isStruct(mm.Elem()) {
				return TV{x.melemObj(b.Ty, b.T, i), types.NewPointer(mm.Elem())}
			}
			fs, commit := e.factState()
			defer commit()
			v, _ := x.mapLoad(fs, e.cur, b.Ty, b.T, i)
			return v
		}
		if isString(b.Ty) {
			x.useStr()
			return TV{"(strat " + b.T + " " + i + ")", types.Typ[types.Uint8]}
		}
	}
	e.errf("cannot index %T", base)
	return nil
}

func (e *Env) evalBinary(b *Binary) Val {
	x := e.x
	switch b.Op {
	case "&&":
		return boolTV(and(x.evalBool(e, b.X), x.evalBool(e, b.Y)))
	case "||":
		return boolTV(or(x.evalBool(e, b.X), x.evalBool(e, b.Y)))
	case "==>":
		return boolTV(implies(x.evalBool(e, b.X), x.evalBool(e, b.Y)))
	case "<==>":
		return boolTV(eq(x.evalBool(e, b.X), x.evalBool(e, b.Y)))
	case "==", "!=":
		l, r := e.eval(b.X), e.eval(b.Y)
		t := e.equal(l, r)
		if b.Op == "!=" {
			t = not(t)
		}
		return boolTV(t)
	case "++":
		l := e.eval(b.X)
		sq, ok := l.(SQ)
		if !ok {
			e.errf("++ needs a sequence on the left")
		}
		if lit, ok := b.Y.(*SeqLit); ok {
			a := sq.A
			n := sq.L
			for _, el := range lit.Elems {
				a = store(a, add(sq.O, n), x.scalar(e.eval(el)))
				n = add(n, "1")
			}
			return SQ{a, sq.O, n, sq.Elem}
		}
		e.errf("++ supports only sequence literals on the right")
	}
	l, r := x.scalar(e.eval(b.X)), x.scalar(e.eval(b.Y))
	switch b.Op {
	case "<":
		return boolTV(lt(l, r))
	case "<=":
		return boolTV(le(l, r))
	case ">":
		return boolTV(lt(r, l))
	case ">=":
		return boolTV(le(r, l))
	case "+":
		return TV{add(l, r), tInt}
	case "-":
		return TV{sub(l, r), tInt}
	case "*":
		return TV{"(* " + l + " " + r + ")", tInt}
	case "/":
		return TV{"(div " + l + " " + r + ")", tInt}
	case "%":
		return TV{"(mod " + l + " " + r + ")", tInt}
	}
	e.errf("operator %s", b.Op)
	return nil
}

func (e *Env) equal(l, r Val) string {
	x := e.x
	if lt, ok := l.(TV); ok {
		if rt, ok := r.(TV); ok {
			if isString(lt.Ty) && isString(rt.Ty) && len(e.qv) == 0 && e.inQuant == 0 && e.st != nil {
				x.strExt(e.st, lt.T, rt.T)
			}
			if isBool(lt.Ty) != isBool(rt.Ty) && lt.Ty != types.Typ[types.UntypedNil] && rt.Ty != types.Typ[types.UntypedNil] {
				e.errf("comparing bool with non-bool")
			}
		}
	}
	return x.valEq(l, r)
}

// strExt adds the extensionality instance for two closed string terms.
func (x *Exec) strExt(st *State, s, t string) {
	if s == t || strings.HasPrefix(s, "|str:") && strings.HasPrefix(t, "|str:") {
		return
	}
	x.useStr()
	x.reg.declare("strdiff", "(Int Int) Int")
	d := "(strdiff " + s + " " + t + ")"
	st.assume(or(eq(s, t), not(eq("(strlen "+s+")", "(strlen "+t+")")),
		and(le("0", d), lt(d, "(strlen "+s+")"), not(eq("(strat "+s+" "+d+")", "(strat "+t+" "+d+")")))))
}

func (x *Exec) seqEq(a, b SQ) string {
	x.P.qcount++
	q := fmt.Sprintf("qi!%d", x.P.qcount)
	body := implies(and(le("0", q), lt(q, a.L)), eq(sel(a.A, add(a.O, q)), sel(b.A, add(b.O, q))))
	return and(eq(a.L, b.L), renderForall(body, []string{q}, []string{"(" + q + " Int)"}))
}

// altVariant maps a universally quantified formula to its equivalent change-of-variable variant
// (same formula, other triggers).  As hypotheses both are asserted; as a goal either one suffices.
var altVariant = map[string]string{}

// renderForall renders a universally quantified body with inferred triggers (both variants, see quant).
func renderForall(body string, names, decl []string) string {
	render := func(body string, decl []string, trigs [][]string) string {
		var pat strings.Builder
		for _, tr := range trigs {
			pat.WriteString(" :pattern (" + strings.Join(tr, " ") + ")")
		}
		if pat.Len() > 0 {
			return fmt.Sprintf("(forall (%s) (! %s%s))", strings.Join(decl, " "), body, pat.String())
		}
		return fmt.Sprintf("(forall (%s) %s)", strings.Join(decl, " "), body)
	}
	b1, _, d1, t1 := autoTrigger(body, append([]string(nil), names...), append([]string(nil), decl...), false)
	out := render(b1, d1, t1)
	if b2, _, d2, t2 := autoTrigger(body, append([]string(nil), names...), append([]string(nil), decl...), true); b2 != b1 && len(t2) > 0 {
		v2 := render(b2, d2, t2)
		if len(t1) == 0 {
			out = v2
		} else {
			altVariant[out] = v2
			out = and(out, v2)
		}
	}
	return out
}

func (e *Env) call(c *CallE) Val {
	x := e.x
	switch c.Fun {
	case "len":
		switch v := e.eval(c.Args[0]).(type) {
		case SL:
			return TV{v.L, tInt}
		case SQ:
			return TV{v.L, tInt}
		case AV:
			return TV{intLit(under(v.Ty).(*types.Array).Len()), tInt}
		case TV:
			if isString(v.Ty) {
				x.useStr()
				return TV{"(strlen " + v.T + ")", tInt}
			}
			if isMap(v.Ty) {
				_, _, n := x.mapKeys(v.Ty)
				return TV{sel(x.hget(e.cur, n), v.T), tInt}
			}
		}
		e.errf("len of unsupported value")
	case "cap":
		if v, ok := e.eval(c.Args[0]).(SL); ok {
			return TV{v.C, tInt}
		}
	case "off":
		if v, ok := e.eval(c.Args[0]).(SL); ok {
			return TV{v.O, tInt}
		}
	case "backing":
		if v, ok := e.eval(c.Args[0]).(SL); ok {
			return TV{v.B, types.NewPointer(backingT)}
		}
	case "remove":
		// remove(s, p): the sequence without its element at position p (definitional fresh array)
		sq, ok := e.eval(c.Args[0]).(SQ)
		if !ok {
			e.errf("remove needs a sequence")
		}
		p := x.evalInt(e, c.Args[1])
		if e.st == nil || len(e.qv) > 0 || e.inQuant > 0 {
			e.errf("remove() only in closed contexts")
		}
		na := x.reg.fresh("removed")
		x.reg.declare(na, "(Array Int "+sortOf(sq.Elem.Go)+")")
		e.st.assume(fmt.Sprintf("(forall ((j Int)) (! (= (select %s j) (ite (< j %s) (select %s (+ %s j)) (select %s (+ %s j 1)))) :pattern ((select %s j))))", na, p, sq.A, sq.O, sq.A, sq.O, na))
		return SQ{na, "0", sub(sq.L, "1"), sq.Elem}
	case "mapref":
		if v, ok := e.eval(c.Args[0]).(TV); ok && isMap(v.Ty) {
			return TV{v.T, types.NewPointer(maprefT)}
		}
		e.errf("mapref needs a map")
	case "zero":
		t := x.P.resolveType(c.Args[0], e.tctx)
		return x.zeroVal(t.Go)
	case "old":
		ne := *e
		if e.now == nil {
			cur := e.cur
			ne.now = &cur
		}
		ne.cur = e.old
		ne.inOld = true
		if e.entryNames != nil {
			// parameter names denote entry values inside old()
			ne.names = mergeNames(e.names, e.entryNames)
		}
		return ne.eval(c.Args[0])
	case "ite":
		return x.valIte(x.evalBool(e, c.Args[0]), e.eval(c.Args[1]), e.eval(c.Args[2]))
	case "is":
		x.useErr()
		return boolTV("(errIs " + x.scalar(e.eval(c.Args[0])) + " " + x.scalar(e.eval(c.Args[1])) + ")")
	case "has":
		m := e.eval(c.Args[0]).(TV)
		d, _, _ := x.mapKeys(m.Ty)
		return boolTV(and(not(eq(m.T, "0")), sel(sel(x.hget(e.cur, d), m.T), x.scalar(e.eval(c.Args[1])))))
	case "fresh":
		p := x.scalar(e.eval(c.Args[0]))
		x.useTop()
		return boolTV(and("(> "+p+" "+e.alloc+")", eq("(top "+p+")", p)))
	case "sinceentry":
		// sinceentry(p): p designates an object allocated by the function under verification (after its entry) --
		// in a precondition of a callee that takes ownership of memory: the caller hands over memory of its own making
		pp := x.scalar(e.eval(c.Args[0]))
		x.useTop()
		return boolTV(and("(> "+pp+" |alloc@0|)", eq("(top "+pp+")", pp)))
	case "strless":
		x.reg.declare("strlt", "(Int Int) Bool")
		return boolTV("(strlt " + x.scalar(e.eval(c.Args[0])) + " " + x.scalar(e.eval(c.Args[1])) + ")")
	case "toplevel":
		// the pointer designates a separately allocated object, not a field or element embedded in another one
		p := x.scalar(e.eval(c.Args[0]))
		x.useTop()
		return boolTV(eq("(top "+p+")", p))
	case "allocated":
		p := x.scalar(e.eval(c.Args[0]))
		x.useTop()
		return boolTV(le("(top "+p+")", e.alloc))
	case "seen":
		it := e.currentIter()
		if it == nil {
			e.errf("seen() outside a map range loop")
		}
		return boolTV(sel(it.seen, x.scalar(e.eval(c.Args[0]))))
	case "as":
		// as(err, T): errors.As(err, &t) with t of type T would succeed
		t := x.P.resolveType(c.Args[1], e.tctx)
		return boolTV(x.errAsT(x.scalar(e.eval(c.Args[0])), t.Go))
	case "asval":
		// asval(err, T): the value errors.As would store
		t := x.P.resolveType(c.Args[1], e.tctx)
		return x.asValOf(e.st, x.scalar(e.eval(c.Args[0])), t.Go)
	case "box":
		// box(v): v converted to an interface value, as Go's implicit conversion to `any` does; box(zero(T)) for an
		// empty struct type T is how a contract names a context key
		v := e.eval(c.Args[0])
		return x.makeIface(e.st, v, valType(v), types.NewInterfaceType(nil, nil))
	case "typeis":
		x.useIface()
		v := x.scalar(e.eval(c.Args[0]))
		t := x.P.resolveType(c.Args[1], e.tctx)
		return boolTV(and(not(eq(v, "0")), eq("(itype "+v+")", x.typeID(t.Go))))
	case "unbox":
		x.useIface()
		v := x.scalar(e.eval(c.Args[0]))
		t := x.P.resolveType(c.Args[1], e.tctx)
		if isStruct(t.Go) {
			return TV{"(ival " + v + ")", types.NewPointer(t.Go)}
		}
		return TV{"(ival " + v + ")", t.Go}
	case "memframe":
		// all element memory of the slices' element type is unchanged except the listed slices' own elements
		if len(c.Args) == 0 {
			e.errf("memframe needs at least one slice; use memsame(T) for 'nothing changed'")
		}
		var sls []SL
		for _, a := range c.Args {
			sl, ok := e.eval(a).(SL)
			if !ok {
				e.errf("memframe argument is not a slice")
			}
			sls = append(sls, sl)
		}
		elem := under(sls[0].Ty).(*types.Slice).Elem()
		return boolTV(x.memFrame(e, elem, sls))
	case "memsame":
		t := x.P.resolveType(c.Args[0], e.tctx)
		return boolTV(x.memFrame(e, t.Go, nil))
	case "int", "uint64", "int64", "uint8", "byte", "uint", "int32", "uint32":
		v := e.eval(c.Args[0])
		return TV{x.scalar(v), tInt}
	case "string":
		v := e.eval(c.Args[0])
		return v
	}
	if pf := x.P.pureFunc(c.Fun, e.tctx); pf != nil {
		return e.callPure(pf, c)
	}
	e.errf("unknown function %s", c.Fun)
	return nil
}

func mergeNames(a, b map[string]Val) map[string]Val {
	m := map[string]Val{}
	for k, v := range a {
		m[k] = v
	}
	for k, v := range b {
		m[k] = v
	}
	return m
}

func (e *Env) currentIter() *iterState {
	if e.st == nil {
		return nil
	}
	// innermost frame outward: the iterator whose Next is in the current loop; take the most recent one
	var keys []ssa.Value
	for k := range e.st.iters {
		keys = append(keys, k)
	}
	if len(keys) == 0 {
		return nil
	}
	sort.Slice(keys, func(i, j int) bool { return keys[i].Pos() < keys[j].Pos() })
	// prefer iterators belonging to the innermost frame's function
	for fr := e.st.fr; fr != nil; fr = fr.parent {
		for i := len(keys) - 1; i >= 0; i-- {
			if keys[i].Parent() == fr.fn {
				return e.st.iters[keys[i]]
			}
		}
	}
	return e.st.iters[keys[len(keys)-1]]
}

func (e *Env) callPure(pf *PureFunc, c *CallE) Val {
	x := e.x
	if len(c.Args) != len(pf.Params) {
		e.errf("%s: %d args for %d params", pf.Name, len(c.Args), len(pf.Params))
	}
	if e.depth > 40 {
		e.errf("pure function recursion too deep in %s", pf.Name)
	}
	var args []Val
	for _, a := range c.Args {
		args = append(args, e.eval(a))
	}
	if pf.Body != nil && pf.Opaque {
		return e.callOpaque(pf, args)
	}
	if pf.Body != nil {
		ne := *e
		ne.depth = e.depth + 1
		ne.names = map[string]Val{}
		ne.frame = nil
		ne.entryNames = nil
		ne.tctx = x.P.typeCtxForPkg(pf.Pkg, e.tctx)
		// type variables of the spec function (e.g. T in listInv(l *List[T])) are bound from the argument types
		bound := map[string]types.Type{}
		for i, p := range pf.Params {
			bindTypeVars(p.Ty, valType(args[i]), bound)
		}
		if len(bound) > 0 {
			nt := *ne.tctx
			nt.targs = map[string]types.Type{}
			for k, v := range ne.tctx.targs {
				nt.targs[k] = v
			}
			for k, v := range bound {
				if _, ok := nt.targs[k]; !ok {
					nt.targs[k] = v
				}
			}
			if len(nt.tlist) == 0 && len(bound) == 1 {
				for _, v := range bound {
					nt.tlist = []types.Type{v}
				}
			}
			ne.tctx = &nt
		}
		// keep quantified variables of the caller invisible (hygiene) but bound by value
		ne.qv = nil
		for i, p := range pf.Params {
			ne.names[p.Name] = args[i]
		}
		return ne.eval(pf.Body)
	}
	// uninterpreted
	var sig []string
	var as []string
	for i, p := range pf.Params {
		t := x.P.resolveTypeExpr(p.Ty, x.P.typeCtxForPkg(pf.Pkg, e.tctx))
		sig = append(sig, sortOf(t.Go))
		as = append(as, x.scalar(args[i]))
	}
	rt := x.P.resolveTypeExpr(pf.Ret, x.P.typeCtxForPkg(pf.Pkg, e.tctx))
	name := "|pure:" + pf.Name + "|"
	if len(sig) == 0 {
		x.reg.declare(name, sortOf(rt.Go))
		return TV{name, rt.Go}
	}
	x.reg.declare(name, "("+strings.Join(sig, " ")+") "+sortOf(rt.Go))
	return TV{"(" + name + " " + strings.Join(as, " ") + ")", rt.Go}
}

// memFrame: element memory of type elem is unchanged between e.old and e.cur outside the given slices.
func (x *Exec) memFrame(e *Env, elem types.Type, except []SL) string {
	if !isScalar(elem) {
		e.errf("memframe/memsame only for scalar element types")
	}
	mk := x.memKey(elem)
	cur, old := x.hget(e.cur, mk), x.hget(e.old, mk)
	if cur == old {
		return "true"
	}
	var ex []string
	for _, s := range except {
		ex = append(ex, and(eq("c!f", s.B), le(s.O, "j!f"), lt("j!f", add(s.O, s.L))))
	}
	body := eq(sel(sel(cur, "c!f"), "j!f"), sel(sel(old, "c!f"), "j!f"))
	x.useTop()
	guard := le("(top c!f)", e.alloc) // only objects that existed in the old state are constrained
	if len(ex) > 0 {
		guard = and(guard, not(or(ex...)))
	}
	body = implies(guard, body)
	return fmt.Sprintf("(forall ((c!f Int) (j!f Int)) (! %s :pattern ((select (select %s c!f) j!f))))", body, cur)
}

// installAxioms asserts the program's axioms (trusted facts about uninterpreted spec functions).
func (x *Exec) installAxioms() {
	for i, ax := range x.P.Axioms {
		env := &Env{x: x, names: map[string]Val{}, cur: Heap{}, old: Heap{}, tctx: x.P.typeCtxForPkg(ax.Pkg, &typeCtx{prog: x.P, targs: map[string]types.Type{}}), alloc: "|alloc@0|"}
		t := x.evalBool(env, ax.E)
		attached := false
		for _, sym := range symbolsOf(t) {
			if strings.HasPrefix(sym, "|pure:") {
				x.reg.axiom(sym, fmt.Sprintf("%s#%d", ax.Label, i), t)
				attached = true
			}
		}
		if !attached {
			x.reg.axiom("|alloc@0|", fmt.Sprintf("%s#%d", ax.Label, i), t)
		}
	}
}

// callOpaque: P_k(args), where k identifies the versions of the heap arrays the body reads in the
// current state; the definitional axiom forall args. P_k(args) <=> body is attached to the symbol.
func (e *Env) callOpaque(pf *PureFunc, args []Val) Val {
	x := e.x
	if x.opReads == nil {
		x.opReads, x.opSyms = map[string][]string{}, map[string]string{}
	}
	var argTerms []string
	var sorts []string
	tkey := pf.Pkg + "." + pf.Name
	for _, a := range args {
		tv, ok := a.(TV)
		if !ok {
			e.errf("opaque spec function %s: scalar arguments only", pf.Name)
		}
		argTerms = append(argTerms, tv.T)
		sorts = append(sorts, sortOf(tv.Ty))
		tkey += "|" + typeKey(tv.Ty)
	}
	evalBody := func(env *Env, bound []Val) string {
		ne := *env
		ne.depth = env.depth + 1
		ne.names = map[string]Val{}
		ne.frame = nil
		ne.entryNames = nil
		ne.st = nil
		ne.tctx = x.P.typeCtxForPkg(pf.Pkg, env.tctx)
		tb := map[string]types.Type{}
		for i, p := range pf.Params {
			bindTypeVars(p.Ty, valType(bound[i]), tb)
			ne.names[p.Name] = bound[i]
		}
		if len(tb) > 0 {
			nt := *ne.tctx
			nt.targs = map[string]types.Type{}
			for k, v := range ne.tctx.targs {
				nt.targs[k] = v
			}
			for k, v := range tb {
				if _, ok := nt.targs[k]; !ok {
					nt.targs[k] = v
				}
			}
			if len(nt.tlist) == 0 && len(tb) == 1 {
				for _, v := range tb {
					nt.tlist = []types.Type{v}
				}
			}
			ne.tctx = &nt
		}
		ne.qv = nil
		ne.inQuant = 1
		return x.evalBool(&ne, pf.Body)
	}
	// formal parameters as bound variables
	var formals []Val
	var decl []string
	for i, a := range args {
		x.P.qcount++
		n := fmt.Sprintf("%s!%d", pf.Params[i].Name, x.P.qcount)
		formals = append(formals, TV{n, a.(TV).Ty})
		decl = append(decl, "("+n+" "+sorts[i]+")")
	}
	reads, ok := x.opReads[tkey]
	if !ok {
		saved := x.readLog
		x.readLog = map[string]bool{}
		evalBody(e, formals)
		reads = sortedKeys(x.readLog)
		x.readLog = saved
		x.opReads[tkey] = reads
	}
	skey := tkey
	for _, k := range reads {
		skey += "#" + x.hget(e.cur, k)
	}
	sym, ok := x.opSyms[skey]
	if !ok {
		sym = fmt.Sprintf("|op:%s#%d|", pf.Name, len(x.opSyms))
		x.opSyms[skey] = sym
		x.reg.declare(sym, "("+strings.Join(sorts, " ")+") Bool")
		body := evalBody(e, formals)
		var fs []string
		for _, f := range formals {
			fs = append(fs, f.(TV).T)
		}
		app := "(" + sym + " " + strings.Join(fs, " ") + ")"
		x.reg.axiom(sym, "def", fmt.Sprintf("(forall (%s) (! (= %s %s) :pattern (%s)))", strings.Join(decl, " "), app, body, app))
	}
	return boolTV("(" + sym + " " + strings.Join(argTerms, " ") + ")")
}

func valType(v Val) types.Type {
	switch v := v.(type) {
	case TV:
		return v.Ty
	case SV:
		return v.Ty
	case SL:
		return v.Ty
	case AV:
		return v.Ty
	}
	return nil
}

// bindTypeVars matches a contract type expression against a Go type and records the
// instantiation of single-letter type variables (T, K, V ...).
func bindTypeVars(te *TypeExpr, t types.Type, out map[string]types.Type) {
	if te == nil || t == nil {
		return
	}
	switch te.Kind {
	case "ptr":
		if p, ok := t.(*types.Pointer); ok {
			bindTypeVars(te.Elem, p.Elem(), out)
		}
	case "slice":
		if s, ok := t.(*types.Slice); ok {
			bindTypeVars(te.Elem, s.Elem(), out)
		}
	case "name":
		if len(te.Args) == 0 {
			if len(te.Name) == 1 && te.Name[0] >= 'A' && te.Name[0] <= 'Z' {
				out[te.Name] = t
			}
			return
		}
		if n, ok := t.(*types.Named); ok && n.TypeArgs() != nil {
			for i := 0; i < n.TypeArgs().Len() && i < len(te.Args); i++ {
				bindTypeVars(te.Args[i], n.TypeArgs().At(i), out)
			}
		}
	}
}

// ---------- ghost fields ----------

func (x *Exec) ghostKeys(structT types.Type, g *GhostField, tctx *typeCtx) []string {
	base := "G%" + typeKey(structT) + "%" + g.Name
	t := x.P.resolveTypeExpr(g.Ty, x.P.typeCtxForGhost(g, structT, tctx))
	switch t.Kind {
	case "seq":
		x.regKey(base+"#a", "(Array Int (Array Int "+sortOf(t.Elem.Go)+"))")
		x.regKey(base+"#l", "(Array Int Int)")
		return []string{base + "#a", base + "#l"}
	case "set":
		x.regKey(base, "(Array Int (Array "+sortOf(t.Elem.Go)+" Bool))")
		return []string{base}
	}
	if m, ok := under(t.Go).(*types.Map); ok {
		x.regKey(base, "(Array Int (Array "+sortOf(m.Key())+" "+sortOf(m.Elem())+"))")
		return []string{base}
	}
	x.regKey(base, arrSort(t.Go))
	return []string{base}
}

func (e *Env) ghostLoad(structT types.Type, g *GhostField, obj string) Val {
	x := e.x
	base := "G%" + typeKey(structT) + "%" + g.Name
	x.ghostKeys(structT, g, e.tctx)
	t := x.P.resolveTypeExpr(g.Ty, x.P.typeCtxForGhost(g, structT, e.tctx))
	switch t.Kind {
	case "seq":
		return SQ{A: sel(x.hget(e.cur, base+"#a"), obj), O: "0", L: sel(x.hget(e.cur, base+"#l"), obj), Elem: *t.Elem}
	case "set":
		return ST{A: sel(x.hget(e.cur, base), obj), Elem: *t.Elem}
	}
	if m, ok := under(t.Go).(*types.Map); ok {
		return GM{A: sel(x.hget(e.cur, base), obj), Elem: m.Elem()}
	}
	return TV{sel(x.hget(e.cur, base), obj), t.Go}
}

// ghostStore performs `ghost lhs := rhs` (lhs must be obj.ghostfield).
func (x *Exec) ghostStore(st *State, env *Env, ga GhostAssign) {
	s, ok := ga.LHS.(*Sel)
	if !ok {
		env.errf("ghost assignment target must be obj.field")
	}
	if len(ga.QVars) > 0 {
		// comprehension: the field of every object is redefined at once (new array := lambda m. rhs)
		if len(ga.QVars) != 1 {
			env.errf("ghost forall: exactly one variable")
		}
		qv := ga.QVars[0]
		if id, ok := s.X.(*Ident); !ok || id.Name != qv.Name {
			env.errf("ghost forall: target must be %s.<ghost field>", qv.Name)
		}
		t := x.P.resolveTypeExpr(qv.Ty, env.tctx)
		if !isPointer(t.Go) {
			env.errf("ghost forall: variable must have pointer type")
		}
		structT := deref(t.Go)
		g := x.P.ghostField(structT, s.F)
		if g == nil {
			env.errf("no ghost field %s", s.F)
		}
		keys := x.ghostKeys(structT, g, env.tctx)
		if len(keys) != 1 {
			env.errf("ghost forall: scalar ghost fields only")
		}
		x.P.qcount++
		bv := fmt.Sprintf("%s!%d", qv.Name, x.P.qcount)
		env.qv = append(env.qv, map[string]Val{qv.Name: TV{bv, t.Go}})
		env.inQuant++
		rhs := x.scalar(env.eval(ga.RHS))
		env.inQuant--
		env.qv = env.qv[:len(env.qv)-1]
		na := x.reg.fresh(keys[0])
		x.reg.declare(na, x.keySort(keys[0]))
		st.assume(fmt.Sprintf("(forall ((%s Int)) (! (= (select %s %s) %s) :pattern ((select %s %s))))", bv, na, bv, rhs, na, bv))
		st.H.M[keys[0]] = na
		return
	}
	base := env.eval(s.X)
	tv, ok := base.(TV)
	if !ok || !isPointer(tv.Ty) {
		env.errf("ghost assignment target object must be a pointer")
	}
	structT := deref(tv.Ty)
	g := x.P.ghostField(structT, s.F)
	if g == nil {
		env.errf("no ghost field %s", s.F)
	}
	key := "G%" + typeKey(structT) + "%" + g.Name
	x.ghostKeys(structT, g, env.tctx)
	rhs := env.eval(ga.RHS)
	switch r := rhs.(type) {
	case SQ:
		arr := r.A
		if r.O != "0" {
			// normalise to offset 0 through a fresh array
			na := x.reg.fresh("seqshift")
			x.reg.declare(na, "(Array Int "+sortOf(r.Elem.Go)+")")
			st.assume(fmt.Sprintf("(forall ((j Int)) (! (= (select %s j) (select %s (+ j %s))) :pattern ((select %s j))))", na, r.A, r.O, na))
			arr = na
		}
		x.hset(st, key+"#a", store(x.hget(st.H, key+"#a"), tv.T, arr))
		x.hset(st, key+"#l", store(x.hget(st.H, key+"#l"), tv.T, r.L))
	case ST:
		x.hset(st, key, store(x.hget(st.H, key), tv.T, r.A))
	case GM:
		x.hset(st, key, store(x.hget(st.H, key), tv.T, r.A))
	default:
		x.hset(st, key, store(x.hget(st.H, key), tv.T, x.scalar(rhs)))
	}
}

// ---------- quantifiers ----------

func (e *Env) quant(q *Quant) Val {
	x := e.x
	bind := map[string]Val{}
	var decl []string
	var names []string
	var guards []string
	for _, v := range q.Vars {
		t := x.P.resolveTypeExpr(v.Ty, e.tctx)
		n := fmt.Sprintf("%s!%d", v.Name, len(e.qnames)+len(names))
		x.P.qcount++
		n = fmt.Sprintf("%s!%d", v.Name, x.P.qcount)
		bind[v.Name] = TV{n, t.Go}
		decl = append(decl, "("+n+" "+sortOf(t.Go)+")")
		names = append(names, n)
		if lo, hi, ok := intRange(t.Go); ok && !isUntypedOrInt(t.Go) {
			guards = append(guards, and(le(lo, n), le(n, hi)))
		}
		if isString(t.Go) {
			x.useStr()
		}
	}
	e.qv = append(e.qv, bind)
	e.inQuant++
	body := x.evalBool(e, q.Body)
	var trigs [][]string
	for _, tr := range q.Trig {
		var ts []string
		for _, te := range tr {
			v := e.eval(te)
			ts = append(ts, x.scalar(v))
		}
		trigs = append(trigs, ts)
	}
	e.qv = e.qv[:len(e.qv)-1]
	e.inQuant--
	if len(guards) > 0 {
		if q.All {
			body = implies(and(guards...), body)
		} else {
			body = and(and(guards...), body)
		}
	}
	if body == "true" || body == "false" {
		return boolTV(body)
	}
	kw := "forall"
	if !q.All {
		kw = "exists"
	}
	render := func(body string, decl []string, trigs [][]string) string {
		var pat strings.Builder
		for _, tr := range trigs {
			pat.WriteString(" :pattern (" + strings.Join(tr, " ") + ")")
		}
		if pat.Len() > 0 {
			return fmt.Sprintf("(%s (%s) (! %s%s))", kw, strings.Join(decl, " "), body, pat.String())
		}
		return fmt.Sprintf("(%s (%s) %s)", kw, strings.Join(decl, " "), body)
	}
	if len(trigs) > 0 {
		return boolTV(render(body, decl, trigs))
	}
	one := func(body string) string {
		// variant 1: triggers on the terms as written; variant 2 (when an index is used with an offset):
		// the same formula after the change of variable j = offset + i, triggering on the offset accesses.
		b1, _, d1, t1 := autoTrigger(body, append([]string(nil), names...), append([]string(nil), decl...), false)
		out := render(b1, d1, t1)
		if b2, _, d2, t2 := autoTrigger(body, append([]string(nil), names...), append([]string(nil), decl...), true); b2 != b1 && len(t2) > 0 {
			v2 := render(b2, d2, t2)
			if len(t1) == 0 {
				out = v2
			} else if q.All {
				altVariant[out] = v2
				out = and(out, v2)
			} else {
				out = or(out, v2)
			}
		}
		return out
	}
	if q.All {
		// forall x. (g => c1 && ... && cn) is rendered as one quantifier per conjunct, each with its own
		// triggers: a frame clause over many fields must fire on a term of any one of them
		if parts := distribute(body); len(parts) > 1 && len(parts) <= 24 {
			var outs []string
			for _, p := range parts {
				outs = append(outs, one(p))
			}
			return boolTV(and(outs...))
		}
	}
	return boolTV(one(body))
}

// distribute splits (=> g (and c1 .. cn)) and (and c1 .. cn) (nested) into [(=> g c1) ...].
func distribute(body string) []string {
	var parts []string
	var rec func(n *sx, wrap func(string) string, depth int)
	rec = func(n *sx, wrap func(string) string, depth int) {
		if n.kids != nil && depth < 4 {
			switch n.head() {
			case "and":
				for _, k := range n.kids[1:] {
					rec(k, wrap, depth)
				}
				return
			case "=>":
				if len(n.kids) == 3 {
					g := n.kids[1].String()
					rec(n.kids[2], func(s string) string { return wrap("(=> " + g + " " + s + ")") }, depth+1)
					return
				}
			}
		}
		parts = append(parts, wrap(n.String()))
	}
	rec(parseSx(body), func(s string) string { return s }, 0)
	return parts
}

func isUntypedOrInt(t types.Type) bool {
	b, ok := under(t).(*types.Basic)
	return ok && (b.Kind() == types.Int || b.Kind() == types.UntypedInt)
}

// ---------- s-expressions and trigger inference ----------

type sx struct {
	atom string
	kids []*sx
}

func parseSx(s string) *sx {
	pos := 0
	var parse func() *sx
	parse = func() *sx {
		for pos < len(s) && (s[pos] == ' ' || s[pos] == '\n' || s[pos] == '\t') {
			pos++
		}
		if pos >= len(s) {
			return nil
		}
		if s[pos] == '(' {
			pos++
			n := &sx{}
			for {
				for pos < len(s) && (s[pos] == ' ' || s[pos] == '\n' || s[pos] == '\t') {
					pos++
				}
				if pos >= len(s) {
					return n
				}
				if s[pos] == ')' {
					pos++
					return n
				}
				n.kids = append(n.kids, parse())
			}
		}
		start := pos
		if s[pos] == '|' {
			pos++
			for pos < len(s) && s[pos] != '|' {
				pos++
			}
			pos++
		} else {
			for pos < len(s) && !strings.ContainsRune("() \n\t", rune(s[pos])) {
				pos++
			}
		}
		return &sx{atom: s[start:pos]}
	}
	return parse()
}

func (n *sx) String() string {
	if n.kids == nil && n.atom != "" {
		return n.atom
	}
	var parts []string
	for _, k := range n.kids {
		parts = append(parts, k.String())
	}
	return "(" + strings.Join(parts, " ") + ")"
}

func (n *sx) head() string {
	if len(n.kids) > 0 && n.kids[0].kids == nil {
		return n.kids[0].atom
	}
	return ""
}

var interpretedHeads = map[string]bool{
	"and": true, "or": true, "not": true, "=>": true, "=": true, "ite": true, "+": true, "-": true, "*": true,
	"div": true, "mod": true, "<": true, "<=": true, ">": true, ">=": true, "forall": true, "exists": true, "!": true,
	"distinct": true, "let": true, "abs": true, "store": true,
}

func (n *sx) contains(atom string) bool {
	if n.kids == nil {
		return n.atom == atom
	}
	for _, k := range n.kids {
		if k.contains(atom) {
			return true
		}
	}
	return false
}

func (n *sx) hasInterpreted(vars []string) bool {
	if n.kids == nil {
		return false
	}
	h := n.head()
	// an offset index (+ C v), C closed, is tolerated inside patterns: the generator builds every
	// slice index in exactly this shape, so syntactic matching finds it
	if false && h == "+" && len(n.kids) == 3 && n.kids[2].kids == nil {
		isVar := false
		for _, v := range vars {
			if n.kids[2].atom == v {
				isVar = true
			}
		}
		closed := true
		for _, v := range vars {
			if n.kids[1].contains(v) {
				closed = false
			}
		}
		if isVar && closed {
			return false
		}
	}
	if interpretedHeads[h] || h == "" {
		// arithmetic over bound variables spoils E-matching; constants are fine
		for _, v := range vars {
			if n.contains(v) {
				return true
			}
		}
	}
	for _, k := range n.kids[1:] {
		if k.hasInterpreted(vars) {
			return true
		}
	}
	return false
}

// autoTrigger picks patterns; it may rewrite the body by the change of variable j = O + i
// when a bound variable i is only ever used as an index (+ O i) with a single O.
func autoTrigger(body string, names, decl []string, cov bool) (string, []string, []string, [][]string) {
	tree := parseSx(body)
	// change of variable for offset indexing
	for vi, v := range names {
		if !cov {
			break
		}
		offs := map[string]int{}
		direct := 0
		var walk func(n *sx)
		walk = func(n *sx) {
			if n.kids == nil {
				return
			}
			if h := n.head(); h != "" && !interpretedHeads[h] {
				for _, ix := range n.kids[1:] {
					if ix.kids == nil && ix.atom == v {
						direct++
					}
					if ix.head() == "+" && len(ix.kids) == 3 && ix.kids[2].kids == nil && ix.kids[2].atom == v && !ix.kids[1].contains(v) {
						offs[ix.kids[1].String()]++
					}
				}
			}
			for _, k := range n.kids {
				walk(k)
			}
		}
		walk(tree)
		_ = direct
		if len(offs) == 1 {
			var off string
			for o := range offs {
				off = o
			}
			usable := true
			for _, o := range names {
				if strings.Contains(off, o) {
					usable = false
				}
			}
			if usable {
				j := v + "@"
				var subst func(n *sx) *sx
				subst = func(n *sx) *sx {
					if n.kids == nil {
						if n.atom == v {
							return parseSx("(- " + j + " " + off + ")")
						}
						return n
					}
					if n.head() == "+" && len(n.kids) == 3 && n.kids[2].kids == nil && n.kids[2].atom == v && n.kids[1].String() == off {
						return &sx{atom: j}
					}
					m := &sx{}
					for _, k := range n.kids {
						m.kids = append(m.kids, subst(k))
					}
					return m
				}
				tree = subst(tree)
				names[vi] = j
				decl[vi] = strings.Replace(decl[vi], "("+v+" ", "("+j+" ", 1)
			}
		}
	}
	body = tree.String()
	// candidates
	type cand struct {
		t    *sx
		s    string
		vars map[string]bool
	}
	var cands []cand
	seen := map[string]bool{}
	var collect func(n *sx, inner []string)
	collect = func(n *sx, inner []string) {
		if n.kids == nil {
			return
		}
		h := n.head()
		if (h == "forall" || h == "exists") && len(n.kids) >= 3 {
			// nested quantifier: terms over the outer variables only may still serve as triggers
			in2 := append([]string(nil), inner...)
			for _, d := range n.kids[1].kids {
				if len(d.kids) > 0 {
					in2 = append(in2, d.kids[0].atom)
				}
			}
			collect(n.kids[2], in2)
			return
		}
		if h == "!" && len(n.kids) >= 2 {
			collect(n.kids[1], inner)
			return
		}
		if !interpretedHeads[h] && h != "" && h != ":pattern" {
			vs := map[string]bool{}
			for _, v := range names {
				if n.contains(v) {
					vs[v] = true
				}
			}
			bad := n.contains("ite") || n.contains("forall") || n.contains("exists")
			for _, iv := range inner {
				if n.contains(iv) {
					bad = true
				}
			}
			for _, k := range n.kids[1:] {
				if k.hasInterpreted(append(append([]string(nil), names...), inner...)) {
					bad = true
				}
			}
			if len(vs) > 0 && !bad {
				s := n.String()
				if !seen[s] {
					seen[s] = true
					cands = append(cands, cand{n, s, vs})
				}
			}
		}
		for _, k := range n.kids {
			collect(k, inner)
		}
	}
	collect(tree, nil)
	// keep innermost candidates: drop a candidate if a strict sub-candidate covers the same variables
	var keep []cand
	for i, c := range cands {
		drop := false
		for j, d := range cands {
			if i != j && len(d.s) < len(c.s) && strings.Contains(c.s, d.s) && len(d.vars) == len(c.vars) {
				drop = true
			}
		}
		if !drop {
			keep = append(keep, c)
		}
	}
	var full [][]string
	for _, c := range keep {
		if len(c.vars) == len(names) {
			full = append(full, []string{c.s})
		}
	}
	if len(full) > 0 {
		// fewest, simplest patterns first: every extra alternative multiplies instantiations
		sort.SliceStable(full, func(i, j int) bool { return len(full[i][0]) < len(full[j][0]) })
		if len(full) > 6 {
			full = full[:6]
		}
		return body, names, decl, full
	}
	// greedy multi-pattern
	covered := map[string]bool{}
	var multi []string
	for len(covered) < len(names) {
		best := -1
		gain := 0
		for i, c := range keep {
			g := 0
			for v := range c.vars {
				if !covered[v] {
					g++
				}
			}
			if g > gain {
				gain, best = g, i
			}
		}
		if best < 0 {
			return body, names, decl, nil
		}
		multi = append(multi, keep[best].s)
		for v := range keep[best].vars {
			covered[v] = true
		}
	}
	return body, names, decl, [][]string{multi}
}

func exprString(e Expr) string {
	switch e := e.(type) {
	case *Ident:
		return e.Name
	case *IntLit:
		return e.V
	case *StrLit:
		return fmt.Sprintf("%q", e.V)
	case *BoolLit:
		return fmt.Sprint(e.V)
	case *NilLit:
		return "nil"
	case *Unary:
		return e.Op + exprString(e.X)
	case *Binary:
		return "(" + exprString(e.X) + " " + e.Op + " " + exprString(e.Y) + ")"
	case *Sel:
		return exprString(e.X) + "." + e.F
	case *Index:
		return exprString(e.X) + "[" + exprString(e.I) + "]"
	case *SliceE:
		return exprString(e.X) + "[..]"
	case *CallE:
		var as []string
		for _, a := range e.Args {
			as = append(as, exprString(a))
		}
		return e.Fun + "(" + strings.Join(as, ", ") + ")"
	case *Quant:
		return "quantifier"
	}
	return fmt.Sprintf("%T", e)
}
