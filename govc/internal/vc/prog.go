package vc

// Program: loading /repo with go/packages + go/ssa, contract registry, name and type resolution.

import (
	"fmt"
	"go/ast"
	"go/types"
	"os"
	"path/filepath"
	"sort"
	"strings"

	"golang.org/x/tools/go/ast/astutil"
	"golang.org/x/tools/go/packages"
	"golang.org/x/tools/go/ssa"
	"golang.org/x/tools/go/ssa/ssautil"
)

type Program struct {
	Module   string
	Dir      string
	Pkgs     []*packages.Package
	All      map[string]*packages.Package
	SSA      *ssa.Program
	Files    []*SpecFile
	funcs    []*FuncSpec
	loopsS   []*LoopSpec
	pures    map[string][]*PureFunc
	ghosts   []*GhostField
	Axioms   []*Axiom
	closures map[string]CL
	qcount   int
	epoch    int

	strOfBytes []string
	specCache  map[*ssa.Function]*FuncSpec
	sentinels  map[*types.Var]bool
	SpecFilesRead []string
	srcCache      map[string][]byte
	allFns        []*ssa.Function
}

func (p *Program) nextEpoch() int { p.epoch++; return p.epoch }

// Load loads the given package patterns of the module in dir with the verif tag on.
func Load(dir string, patterns []string, trustedDir string) (*Program, error) {
	cfg := &packages.Config{Mode: packages.LoadAllSyntax | packages.NeedModule, Dir: dir, BuildFlags: []string{"-tags=verif"},
		Env: append(os.Environ(), "GOFLAGS=-mod=mod", "GOPROXY=off", "GOSUMDB=off", "GOTOOLCHAIN=local")}
	pkgs, err := packages.Load(cfg, patterns...)
	if err != nil {
		return nil, err
	}
	p := &Program{Dir: dir, Pkgs: pkgs, All: map[string]*packages.Package{}, pures: map[string][]*PureFunc{}, closures: map[string]CL{},
		specCache: map[*ssa.Function]*FuncSpec{}, sentinels: map[*types.Var]bool{}}
	var errs []string
	packages.Visit(pkgs, nil, func(pk *packages.Package) {
		p.All[pk.PkgPath] = pk
		for _, e := range pk.Errors {
			errs = append(errs, e.Error())
		}
	})
	if len(errs) > 0 {
		return nil, fmt.Errorf("package errors: %s", strings.Join(errs, "; "))
	}
	for _, pk := range pkgs {
		if pk.Module != nil {
			p.Module = pk.Module.Path
		}
	}
	prog, _ := ssautil.AllPackages(pkgs, ssa.InstantiateGenerics|ssa.GlobalDebug)
	prog.Build()
	p.SSA = prog
	// contract files in module packages
	var paths []string
	for path := range p.All {
		paths = append(paths, path)
	}
	sort.Strings(paths)
	for _, path := range paths {
		pk := p.All[path]
		if pk.Module == nil || pk.Module.Path != p.Module {
			continue
		}
		for i, f := range pk.Syntax {
			name := pk.CompiledGoFiles[i]
			if !strings.HasSuffix(name, "_verif.go") {
				continue
			}
			var sb strings.Builder
			for _, cg := range f.Comments {
				for _, c := range cg.List {
					if strings.HasPrefix(c.Text, "//@") {
						sb.WriteString(strings.TrimPrefix(c.Text, "//@"))
						sb.WriteString("\n")
					}
				}
			}
			sf, err := ParseSpec(path, name, sb.String())
			if err != nil {
				return nil, err
			}
			p.addSpecFile(sf)
			p.SpecFilesRead = append(p.SpecFilesRead, name)
		}
	}
	if trustedDir != "" {
		files, _ := filepath.Glob(filepath.Join(trustedDir, "*.spec"))
		sort.Strings(files)
		for _, f := range files {
			b, err := os.ReadFile(f)
			if err != nil {
				return nil, err
			}
			sf, err := ParseSpec("", f, string(b))
			if err != nil {
				return nil, err
			}
			for _, fs := range sf.Funcs {
				fs.Trusted = true
			}
			p.addSpecFile(sf)
			p.SpecFilesRead = append(p.SpecFilesRead, f)
		}
	}
	p.scanSentinels()
	return p, nil
}

func (p *Program) addSpecFile(sf *SpecFile) {
	p.Files = append(p.Files, sf)
	p.funcs = append(p.funcs, sf.Funcs...)
	p.loopsS = append(p.loopsS, sf.Loops...)
	for _, pf := range sf.Pures {
		p.pures[pf.Name] = append(p.pures[pf.Name], pf)
	}
	p.ghosts = append(p.ghosts, sf.Ghosts...)
	p.Axioms = append(p.Axioms, sf.Axioms...)
}

func (p *Program) inModule(fn *ssa.Function) bool {
	for fn.Parent() != nil {
		fn = fn.Parent()
	}
	if fn.Origin() != nil {
		fn = fn.Origin()
	}
	return fn.Pkg != nil && (fn.Pkg.Pkg.Path() == p.Module || strings.HasPrefix(fn.Pkg.Pkg.Path(), p.Module+"/"))
}

func fnPkgPath(fn *ssa.Function) string {
	for fn.Parent() != nil {
		fn = fn.Parent()
	}
	if fn.Origin() != nil {
		fn = fn.Origin()
	}
	if fn.Pkg != nil {
		return fn.Pkg.Pkg.Path()
	}
	if fn.Signature.Recv() != nil {
		t := fn.Signature.Recv().Type()
		if pt, ok := t.(*types.Pointer); ok {
			t = pt.Elem()
		}
		if n, ok := t.(*types.Named); ok && n.Obj().Pkg() != nil {
			return n.Obj().Pkg().Path()
		}
	}
	return ""
}

// funcForms: the names under which a contract may refer to fn: without package, with short and with full package path.
func funcForms(fn *ssa.Function) (noPkg, shortPkg, fullPkg string) {
	suffix := ""
	for fn.Parent() != nil {
		suffix = "$" + strings.TrimPrefix(fn.Name(), fn.Parent().Name()+"$") + suffix
		fn = fn.Parent()
	}
	if fn.Origin() != nil {
		fn = fn.Origin()
	}
	path := fnPkgPath(fn)
	short := path
	if i := strings.LastIndex(path, "/"); i >= 0 {
		short = path[i+1:]
	}
	if recv := fn.Signature.Recv(); recv != nil {
		t := recv.Type()
		star := ""
		if pt, ok := t.(*types.Pointer); ok {
			t, star = pt.Elem(), "*"
		}
		tn := "?"
		if n, ok := t.(*types.Named); ok {
			tn = n.Obj().Name()
		}
		name := fn.Name()
		return "(" + star + tn + ")." + name + suffix, "(" + star + short + "." + tn + ")." + name + suffix, "(" + star + path + "." + tn + ")." + name + suffix
	}
	return fn.Name() + suffix, short + "." + fn.Name() + suffix, path + "." + fn.Name() + suffix
}

// instanceForms: names of an instantiated generic method with its type arguments spelled out,
// e.g. (*Pool[file]).Acquire, (*core.Pool[core.Node[model.File]]).Release.
func instanceForms(fn *ssa.Function) (noPkg, shortPkg string) {
	f := fn
	for f.Parent() != nil {
		f = f.Parent()
	}
	if len(f.TypeArgs()) == 0 || f.Signature.Recv() == nil {
		return "", ""
	}
	a, b, _ := funcForms(fn)
	own := fnPkgPath(fn)
	qual := func(p *types.Package) string {
		if p.Path() == own {
			return ""
		}
		return p.Name()
	}
	var as []string
	for _, t := range f.TypeArgs() {
		as = append(as, strings.ReplaceAll(types.TypeString(t, qual), " ", ""))
	}
	args := "[" + strings.Join(as, ",") + "]"
	ins := func(s string) string {
		i := strings.Index(s, ")")
		return s[:i] + args + s[i:]
	}
	return ins(a), ins(b)
}

func matchFuncName(pattern, specPkg string, fn *ssa.Function) bool {
	if strings.Contains(pattern, "[") {
		ia, ib := instanceForms(fn)
		if ia == "" {
			return false
		}
		if pattern == ib {
			return true
		}
		return pattern == ia && (specPkg == "" || specPkg == "*" || specPkg == fnPkgPath(fn))
	}
	a, b, c := funcForms(fn)
	if pattern == c || pattern == b {
		return true
	}
	if pattern == a {
		return specPkg == "" || specPkg == "*" || specPkg == fnPkgPath(fn)
	}
	return false
}

// funcSpec finds the contract of fn (nil if none).
func (p *Program) funcSpec(fn *ssa.Function) *FuncSpec {
	if s, ok := p.specCache[fn]; ok {
		return s
	}
	var found *FuncSpec
	for _, s := range p.funcs {
		if s.IsIface {
			continue
		}
		if matchFuncName(s.Name, s.Pkg, fn) {
			better := found == nil || (strings.Contains(s.Name, "[") && !strings.Contains(found.Name, "[")) ||
				(found.Trusted && !s.Trusted && strings.Contains(s.Name, "[") == strings.Contains(found.Name, "["))
			if better {
				found = s
			}
		}
	}
	p.specCache[fn] = found
	return found
}

// fieldFuncSpec: contract of a function-typed field, written `iface T.field` in T's package.
func (p *Program) fieldFuncSpec(n *types.Named, field string) *FuncSpec {
	if n.Obj().Pkg() == nil {
		return nil
	}
	for _, s := range p.funcs {
		if s.IsIface && s.Name == n.Obj().Name()+"."+field && s.Pkg == n.Obj().Pkg().Path() {
			return s
		}
	}
	return nil
}

func (p *Program) ifaceSpec(recv types.Type, m *types.Func) *FuncSpec {
	recv = types.Unalias(recv)
	try := func(n *types.Named) *FuncSpec {
		if n.Obj().Pkg() == nil {
			// error.Error etc.
			for _, s := range p.funcs {
				if s.IsIface && s.Name == n.Obj().Name()+"."+m.Name() {
					return s
				}
			}
			return nil
		}
		path := n.Obj().Pkg().Path()
		short := n.Obj().Pkg().Name()
		for _, s := range p.funcs {
			if !s.IsIface {
				continue
			}
			if s.Name == n.Obj().Name()+"."+m.Name() && s.Pkg == path {
				return s
			}
			if s.Name == short+"."+n.Obj().Name()+"."+m.Name() || s.Name == path+"."+n.Obj().Name()+"."+m.Name() {
				return s
			}
		}
		return nil
	}
	var visit func(t types.Type, depth int) *FuncSpec
	visit = func(t types.Type, depth int) *FuncSpec {
		if depth > 4 {
			return nil
		}
		if n, ok := t.(*types.Named); ok {
			if s := try(n); s != nil {
				return s
			}
		}
		if it, ok := under(t).(*types.Interface); ok {
			for i := 0; i < it.NumEmbeddeds(); i++ {
				if s := visit(it.EmbeddedType(i), depth+1); s != nil {
					return s
				}
			}
		}
		return nil
	}
	return visit(recv, 0)
}

func (p *Program) loopSpec(x *Exec, st *State, fr *Frame, lp *loop) *LoopSpec {
	var chain []*ssa.Function
	for f := fr; f != nil; f = f.parent {
		chain = append([]*ssa.Function{f.fn}, chain...)
	}
	var best *LoopSpec
	bestN := 0
	for _, ls := range p.loopsS {
		if ls.Ordinal != lp.ordinal {
			continue
		}
		segs := strings.Split(ls.Func, ">")
		if len(segs) > len(chain) {
			continue
		}
		ok := true
		for i := range segs {
			fn := chain[len(chain)-len(segs)+i]
			if !matchFuncName(segs[i], "*", fn) {
				ok = false
				break
			}
		}
		if ok && len(segs) > bestN {
			best, bestN = ls, len(segs)
		}
	}
	return best
}

func (p *Program) pureFunc(name string, tctx *typeCtx) *PureFunc {
	cands := p.pures[name]
	if len(cands) == 0 {
		if i := strings.Index(name, "."); i >= 0 {
			// pkg.func
			for _, pf := range p.pures[name[i+1:]] {
				if strings.HasSuffix(pf.Pkg, "/"+name[:i]) || pf.Pkg == name[:i] {
					return pf
				}
			}
		}
		return nil
	}
	if tctx != nil && tctx.pkg != nil {
		for _, pf := range cands {
			if pf.Pkg == tctx.pkg.Path() {
				return pf
			}
		}
	}
	return cands[0]
}

func originNamed(t types.Type) *types.Named {
	if pt, ok := t.(*types.Pointer); ok {
		t = pt.Elem()
	}
	n, ok := t.(*types.Named)
	if !ok {
		return nil
	}
	return n.Origin()
}

func (p *Program) ghostField(structT types.Type, name string) *GhostField {
	n := originNamed(structT)
	if n == nil {
		return nil
	}
	for _, g := range p.ghosts {
		if g.Name != name {
			continue
		}
		if g.Recv == n.Obj().Name() && (n.Obj().Pkg() == nil || g.Pkg == n.Obj().Pkg().Path()) {
			return g
		}
		if n.Obj().Pkg() != nil && (g.Recv == n.Obj().Pkg().Name()+"."+n.Obj().Name() || g.Recv == n.Obj().Pkg().Path()+"."+n.Obj().Name()) {
			return g
		}
	}
	return nil
}

// ---------- type resolution ----------

type typeCtx struct {
	pkg   *types.Package
	targs map[string]types.Type
	tlist []types.Type
	prog  *Program
}

func (p *Program) typesPkg(path string) *types.Package {
	if pk, ok := p.All[path]; ok {
		return pk.Types
	}
	return nil
}

func (p *Program) typeCtxFor(spec *FuncSpec, fn *ssa.Function) *typeCtx {
	tc := &typeCtx{prog: p, targs: map[string]types.Type{}}
	if fn != nil {
		tc.pkg = p.typesPkg(fnPkgPath(fn))
		f := fn
		for f.Parent() != nil {
			f = f.Parent()
		}
		if len(f.TypeArgs()) > 0 && f.Origin() != nil {
			tps := f.Origin().TypeParams()
			if recv := f.Origin().Signature.Recv(); recv != nil && f.Origin().Signature.RecvTypeParams() != nil {
				tps = f.Origin().Signature.RecvTypeParams()
			}
			for i := 0; tps != nil && i < tps.Len() && i < len(f.TypeArgs()); i++ {
				tc.targs[tps.At(i).Obj().Name()] = f.TypeArgs()[i]
			}
			tc.tlist = f.TypeArgs()
		}
	}
	if spec != nil && spec.Pkg != "" && (tc.pkg == nil || (fn != nil && fnPkgPath(fn) != spec.Pkg)) {
		// a contract written in one package for a function of another (a trusted contract for a library
		// function, phrased over the package's own types): names resolve where the contract was written
		if sp := p.typesPkg(spec.Pkg); sp != nil {
			tc.pkg = sp
		}
	}
	return tc
}

func (p *Program) typeCtxForPkg(path string, fallback *typeCtx) *typeCtx {
	if path == "" {
		return fallback
	}
	tc := &typeCtx{prog: p, pkg: p.typesPkg(path), targs: map[string]types.Type{}}
	if fallback != nil {
		tc.targs, tc.tlist = fallback.targs, fallback.tlist
	}
	return tc
}

func (p *Program) typeCtxForGhost(g *GhostField, structT types.Type, fallback *typeCtx) *typeCtx {
	tc := &typeCtx{prog: p, pkg: p.typesPkg(g.Pkg), targs: map[string]types.Type{}}
	if pt, ok := structT.(*types.Pointer); ok {
		structT = pt.Elem()
	}
	if n, ok := structT.(*types.Named); ok && n.TypeArgs() != nil {
		tps := n.Origin().TypeParams()
		for i := 0; i < tps.Len(); i++ {
			tc.targs[tps.At(i).Obj().Name()] = n.TypeArgs().At(i)
			tc.tlist = append(tc.tlist, n.TypeArgs().At(i))
		}
	} else if fallback != nil {
		tc.targs, tc.tlist = fallback.targs, fallback.tlist
	}
	return tc
}

func (tc *typeCtx) importByName(name string) *types.Package {
	if tc == nil {
		return nil
	}
	if tc.pkg != nil {
		for _, im := range tc.pkg.Imports() {
			if im.Name() == name {
				return im
			}
		}
		// import aliases: search the syntax of the package
		if pk, ok := tc.prog.All[tc.pkg.Path()]; ok {
			for _, f := range pk.Syntax {
				for _, is := range f.Imports {
					if is.Name != nil && is.Name.Name == name {
						path := strings.Trim(is.Path.Value, "\"")
						if tp := tc.prog.typesPkg(path); tp != nil {
							return tp
						}
					}
				}
			}
		}
	}
	// any loaded package with that name (prefer standard library, then shortest path)
	var best *types.Package
	var paths []string
	for path := range tc.prog.All {
		paths = append(paths, path)
	}
	sort.Strings(paths)
	for _, path := range paths {
		pk := tc.prog.All[path]
		if pk.Types != nil && (pk.Types.Name() == name || path == name) {
			if path == name {
				return pk.Types
			}
			if best == nil || (!strings.Contains(strings.Split(path, "/")[0], ".") && strings.Contains(strings.Split(best.Path(), "/")[0], ".")) || (len(path) < len(best.Path()) && strings.Contains(strings.Split(path, "/")[0], ".") == strings.Contains(strings.Split(best.Path(), "/")[0], ".")) {
				best = pk.Types
			}
		}
	}
	return best
}

func (p *Program) resolveTypeStr(s string, tc *typeCtx) SpecType {
	ts, err := lex(s)
	if err != nil {
		panic(specErr{"bad type " + s})
	}
	ps := &parser{ts: ts}
	return p.resolveTypeExpr(ps.parseType(), tc)
}

func exprToTypeExpr(e Expr) *TypeExpr {
	switch e := e.(type) {
	case *Ident:
		return &TypeExpr{Kind: "name", Name: e.Name}
	case *Sel:
		if id, ok := e.X.(*Ident); ok {
			return &TypeExpr{Kind: "name", Name: id.Name + "." + e.F}
		}
	case *Unary:
		if e.Op == "*" {
			return &TypeExpr{Kind: "ptr", Elem: exprToTypeExpr(e.X)}
		}
	case *Index:
		t := exprToTypeExpr(e.X)
		t.Args = append(t.Args, exprToTypeExpr(e.I))
		return t
	}
	panic(specErr{"type expected"})
}

func (p *Program) resolveType(e Expr, tc *typeCtx) SpecType {
	return p.resolveTypeExpr(exprToTypeExpr(e), tc)
}

func (p *Program) resolveTypeExpr(te *TypeExpr, tc *typeCtx) SpecType {
	switch te.Kind {
	case "ptr":
		return goST(types.NewPointer(p.resolveTypeExpr(te.Elem, tc).Go))
	case "slice":
		return goST(types.NewSlice(p.resolveTypeExpr(te.Elem, tc).Go))
	case "seq", "set":
		el := p.resolveTypeExpr(te.Elem, tc)
		return SpecType{Kind: te.Kind, Elem: &el}
	case "map":
		return goST(types.NewMap(p.resolveTypeExpr(te.Key, tc).Go, p.resolveTypeExpr(te.Elem, tc).Go))
	}
	name := te.Name
	if name == "backing" {
		return goST(backingT)
	}
	if name == "world" {
		return goST(worldT)
	}
	if name == "mapref" {
		return goST(maprefT)
	}
	if tc != nil {
		if t, ok := tc.targs[name]; ok {
			return goST(t)
		}
	}
	if obj := types.Universe.Lookup(name); obj != nil {
		if tn, ok := obj.(*types.TypeName); ok {
			return goST(tn.Type())
		}
	}
	var scope *types.Package
	base := name
	if i := strings.LastIndex(name, "."); i >= 0 {
		scope = tc.importByName(name[:i])
		base = name[i+1:]
	} else if tc != nil {
		scope = tc.pkg
	}
	if scope == nil {
		panic(specErr{"cannot resolve type " + name})
	}
	obj := scope.Scope().Lookup(base)
	tn, ok := obj.(*types.TypeName)
	if !ok {
		panic(specErr{"no type " + name})
	}
	t := tn.Type()
	if n, ok := t.(*types.Named); ok && n.TypeParams() != nil && n.TypeParams().Len() > 0 {
		var args []types.Type
		if len(te.Args) > 0 {
			for _, a := range te.Args {
				args = append(args, p.resolveTypeExpr(a, tc).Go)
			}
		} else if tc != nil && len(tc.tlist) == n.TypeParams().Len() {
			args = tc.tlist
		} else {
			panic(specErr{"generic type " + name + " needs type arguments here"})
		}
		inst, err := types.Instantiate(nil, n, args, false)
		if err != nil {
			panic(specErr{"instantiate " + name + ": " + err.Error()})
		}
		t = inst
	}
	return goST(t)
}

// ---------- globals and sentinels ----------

func (p *Program) globalFor(v *types.Var) *ssa.Global {
	if v.Pkg() == nil {
		return nil
	}
	sp := p.SSA.Package(v.Pkg())
	if sp == nil {
		return nil
	}
	g, _ := sp.Members[v.Name()].(*ssa.Global)
	return g
}

// scanSentinels: package-level `var X = errors.New("...")` in module packages.
func (p *Program) scanSentinels() {
	for _, pk := range p.All {
		if pk.Module == nil || pk.Module.Path != p.Module {
			continue
		}
		for _, f := range pk.Syntax {
			for _, d := range f.Decls {
				gd, ok := d.(*ast.GenDecl)
				if !ok {
					continue
				}
				for _, s := range gd.Specs {
					vs, ok := s.(*ast.ValueSpec)
					if !ok || len(vs.Values) != len(vs.Names) {
						continue
					}
					for i, v := range vs.Values {
						call, ok := v.(*ast.CallExpr)
						if !ok {
							continue
						}
						se, ok := call.Fun.(*ast.SelectorExpr)
						if !ok || se.Sel.Name != "New" {
							continue
						}
						if id, ok := se.X.(*ast.Ident); ok && id.Name == "errors" {
							if obj, ok := pk.TypesInfo.Defs[vs.Names[i]].(*types.Var); ok {
								p.sentinels[obj] = true
							}
						}
					}
				}
			}
		}
	}
}

// stdSentinels: standard-library error variables created with errors.New and never reassigned.
var stdSentinels = map[string]bool{"io.EOF": true, "io.ErrUnexpectedEOF": true, "io/fs.ErrNotExist": true, "os.ErrNotExist": true,
	"context.Canceled": true, "io.ErrShortWrite": true, "io.ErrClosedPipe": true}

func (p *Program) isPlainSentinel(g *ssa.Global) bool {
	v, ok := g.Object().(*types.Var)
	if ok && v.Pkg() != nil && stdSentinels[v.Pkg().Path()+"."+v.Name()] {
		return true
	}
	return ok && p.sentinels[v]
}

// FindFunc finds a function of the program by contract-style name within package path pkg.
func (p *Program) FindFuncs(spec *FuncSpec) []*ssa.Function {
	var out []*ssa.Function
	seen := map[*ssa.Function]bool{}
	for _, fn := range p.moduleFuncs() {
		if fn.Blocks == nil || fn.Synthetic != "" && !strings.HasPrefix(fn.Synthetic, "instance of") && fn.Synthetic != "package initializer" {
			continue
		}
		if fn.TypeParams() != nil && fn.TypeParams().Len() > 0 && len(fn.TypeArgs()) == 0 {
			continue // generic origin: verify instances
		}
		if matchFuncName(spec.Name, spec.Pkg, fn) && !seen[fn] {
			seen[fn] = true
			out = append(out, fn)
		}
	}
	sort.Slice(out, func(i, j int) bool { return out[i].String() < out[j].String() })
	return out
}

// moduleFuncs enumerates every function of the module's packages: package-level functions,
// methods of all (also unexported) named types, anonymous functions, and the generic
// instances referenced from any of those.
func (p *Program) moduleFuncs() []*ssa.Function {
	if p.allFns != nil {
		return p.allFns
	}
	seen := map[*ssa.Function]bool{}
	var work []*ssa.Function
	add := func(fn *ssa.Function) {
		if fn != nil && !seen[fn] && p.inModule(fn) {
			seen[fn] = true
			work = append(work, fn)
		}
	}
	for _, pkg := range p.SSA.AllPackages() {
		if pkg.Pkg.Path() != p.Module && !strings.HasPrefix(pkg.Pkg.Path(), p.Module+"/") {
			continue
		}
		var names []string
		for n := range pkg.Members {
			names = append(names, n)
		}
		sort.Strings(names)
		for _, n := range names {
			switch m := pkg.Members[n].(type) {
			case *ssa.Function:
				add(m)
			case *ssa.Type:
				for _, t := range []types.Type{m.Type(), types.NewPointer(m.Type())} {
					if nt, ok := m.Type().(*types.Named); ok && nt.TypeParams() != nil && nt.TypeParams().Len() > 0 {
						continue
					}
					ms := p.SSA.MethodSets.MethodSet(t)
					for i := 0; i < ms.Len(); i++ {
						add(p.SSA.MethodValue(ms.At(i)))
					}
				}
			}
		}
	}
	for len(work) > 0 {
		fn := work[len(work)-1]
		work = work[:len(work)-1]
		p.allFns = append(p.allFns, fn)
		for _, af := range fn.AnonFuncs {
			add(af)
		}
		for _, b := range fn.Blocks {
			for _, in := range b.Instrs {
				for _, op := range in.Operands(nil) {
					if f, ok := (*op).(*ssa.Function); ok {
						add(f)
					}
				}
				if mi, ok := in.(*ssa.MakeInterface); ok {
					// methods reachable through dynamic dispatch (also of instantiated generic types)
					ms := p.SSA.MethodSets.MethodSet(mi.X.Type())
					for i := 0; i < ms.Len(); i++ {
						add(p.SSA.MethodValue(ms.At(i)))
					}
				}
			}
		}
	}
	sort.Slice(p.allFns, func(i, j int) bool { return p.allFns[i].String() < p.allFns[j].String() })
	return p.allFns
}

func (p *Program) FuncSpecs() []*FuncSpec { return p.funcs }

// srcOf returns the (whitespace-free) source text of the expression an instruction came from.
func (p *Program) srcOf(ins ssa.Instruction, kind string) string {
	pos := ins.Pos()
	if !pos.IsValid() {
		if v, ok := ins.(ssa.Value); ok {
			// e.g. FieldAddr/UnOp of an implicit dereference: use the first referrer or operand with a position
			for _, op := range ins.Operands(nil) {
				if *op != nil && (*op).Pos().IsValid() {
					pos = (*op).Pos()
					break
				}
			}
			_ = v
		}
	}
	if !pos.IsValid() {
		return "?"
	}
	fn := ins.Parent()
	for fn.Parent() != nil {
		fn = fn.Parent()
	}
	if fn.Origin() != nil {
		fn = fn.Origin()
	}
	pk := p.All[fnPkgPath(fn)]
	if pk == nil {
		return "?"
	}
	for _, f := range pk.Syntax {
		if f.Pos() <= pos && pos < f.End() {
			path, _ := astutil.PathEnclosingInterval(f, pos, pos)
			for _, n := range path {
				switch n.(type) {
				case *ast.IndexExpr, *ast.SliceExpr, *ast.StarExpr, *ast.SelectorExpr, *ast.BinaryExpr, *ast.CallExpr, *ast.TypeAssertExpr, *ast.UnaryExpr, *ast.IncDecStmt, *ast.AssignStmt, *ast.CompositeLit:
					tf := pk.Fset.File(n.Pos())
					src, err := p.fileSrc(tf.Name())
					if err != nil {
						return "?"
					}
					txt := string(src[tf.Offset(n.Pos()):tf.Offset(n.End())])
					txt = strings.Join(strings.Fields(txt), "")
					if len(txt) > 60 {
						txt = txt[:60]
					}
					return txt
				}
			}
		}
	}
	return "?"
}

func (p *Program) fileSrc(name string) ([]byte, error) {
	if p.srcCache == nil {
		p.srcCache = map[string][]byte{}
	}
	if b, ok := p.srcCache[name]; ok {
		return b, nil
	}
	b, err := os.ReadFile(name)
	if err == nil {
		p.srcCache[name] = b
	}
	return b, err
}
