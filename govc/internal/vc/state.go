package vc

// Symbolic state: path condition, heap (one SMT array per leaf field / cell type /
// slice element type / map type), allocation watermark, call frames.

import (
	"fmt"
	"go/types"
	"sort"
	"strings"

	"golang.org/x/tools/go/ssa"
)

// ---------- declaration registry (per verified function) ----------

type declEntry struct {
	name  string
	text  string   // full SMT command
	deps  []string // symbols referenced by text
	axiom bool
}

type Registry struct {
	order  []*declEntry
	byName map[string]*declEntry
	axFor  map[string][]*declEntry // symbol -> axioms to include when the symbol is used
	n      int
}

func newRegistry() *Registry {
	return &Registry{byName: map[string]*declEntry{}, axFor: map[string][]*declEntry{}}
}

func (r *Registry) fresh(hint string) string {
	r.n++
	h := sanitize(hint)
	if len(h) > 60 {
		h = h[:60]
	}
	return fmt.Sprintf("|%s~%d|", h, r.n)
}

func (r *Registry) declare(name, sortSig string) {
	if _, ok := r.byName[name]; ok {
		return
	}
	// sortSig: "Int" | "(Array Int Int)" | "(Int Int) Int" (function)
	var text string
	if strings.HasPrefix(sortSig, "(") && strings.Contains(sortSig, ") ") && !strings.HasPrefix(sortSig, "(Array") {
		text = fmt.Sprintf("(declare-fun %s %s)", name, sortSig)
	} else {
		text = fmt.Sprintf("(declare-fun %s () %s)", name, sortSig)
	}
	e := &declEntry{name: name, text: text}
	r.byName[name] = e
	r.order = append(r.order, e)
}

func (r *Registry) define(name, sort, body string) {
	if _, ok := r.byName[name]; ok {
		return
	}
	e := &declEntry{name: name, text: fmt.Sprintf("(define-fun %s () %s %s)", name, sort, body), deps: symbolsOf(body)}
	r.byName[name] = e
	r.order = append(r.order, e)
}

// axiom attaches an assertion that is emitted whenever symbol sym is used.
func (r *Registry) axiom(sym, id, body string) {
	key := "ax:" + sym + ":" + id
	if _, ok := r.byName[key]; ok {
		return
	}
	e := &declEntry{name: key, text: "(assert " + body + ")", deps: symbolsOf(body), axiom: true}
	r.byName[key] = e
	r.order = append(r.order, e)
	r.axFor[sym] = append(r.axFor[sym], e)
}

var smtBuiltins = map[string]bool{
	"and": true, "or": true, "not": true, "=>": true, "=": true, "ite": true, "select": true, "store": true,
	"+": true, "-": true, "*": true, "div": true, "mod": true, "<": true, "<=": true, ">": true, ">=": true,
	"forall": true, "exists": true, "Int": true, "Bool": true, "Array": true, "true": true, "false": true,
	"!": true, ":pattern": true, "distinct": true, "let": true, "as": true, "const": true, ":no-pattern": true,
	"abs": true, ":qid": true, ":weight": true,
}

// symbolsOf extracts candidate symbol names from SMT text.
func symbolsOf(s string) []string {
	seen := map[string]bool{}
	var out []string
	i := 0
	for i < len(s) {
		c := s[i]
		switch {
		case c == '|':
			j := strings.IndexByte(s[i+1:], '|')
			if j < 0 {
				i = len(s)
				break
			}
			sym := s[i : i+j+2]
			if !seen[sym] {
				seen[sym] = true
				out = append(out, sym)
			}
			i += j + 2
		case c == '(' || c == ')' || c == ' ' || c == '\n' || c == '\t':
			i++
		default:
			j := i
			for j < len(s) && !strings.ContainsRune("() \n\t|", rune(s[j])) {
				j++
			}
			sym := s[i:j]
			if !smtBuiltins[sym] && !(sym[0] >= '0' && sym[0] <= '9') && !seen[sym] {
				seen[sym] = true
				out = append(out, sym)
			}
			i = j
		}
	}
	return out
}

// closure returns the declarations (in creation order) needed by the given texts.
func (r *Registry) closure(texts []string) []string {
	need := map[string]bool{}
	var work []string
	push := func(sym string) {
		if !need[sym] {
			need[sym] = true
			work = append(work, sym)
		}
	}
	for _, t := range texts {
		for _, s := range symbolsOf(t) {
			push(s)
		}
	}
	for len(work) > 0 {
		s := work[len(work)-1]
		work = work[:len(work)-1]
		if e, ok := r.byName[s]; ok {
			for _, d := range e.deps {
				push(d)
			}
		}
		for _, ax := range r.axFor[s] {
			if !need[ax.name] {
				need[ax.name] = true
				for _, d := range ax.deps {
					push(d)
				}
			}
		}
	}
	var out []string
	dup := map[string]bool{}
	for _, e := range r.order {
		if need[e.name] && !dup[e.text] {
			dup[e.text] = true
			out = append(out, e.text)
		}
	}
	return out
}

// ---------- frames and state ----------

type deferred struct {
	call ssa.CallCommon
	fn   Val
	args []Val
	site *ssa.Defer
}

type Frame struct {
	fn       *ssa.Function
	vals     map[ssa.Value]Val
	names    map[string]Val // source name -> value, or *nameAddr for address-taken variables
	parent   *Frame
	block    *ssa.BasicBlock
	prev     *ssa.BasicBlock
	idx      int
	defers   []deferred
	callSite ssa.Instruction // in parent: the call being inlined
	kind     frameKind
	aux      interface{}      // continuation data
	variant  map[int]string   // loop header block index -> variant value at loop head
	loopOld  map[int]Heap
	depth    int
	closure  *CL
	specCtx  string
	locals   map[*ssa.Alloc]Val // non-escaping local variables kept as values
}

type nameAddr struct {
	ref string
	ty  types.Type // type of the variable (not pointer)
}

type frameKind int

const (
	fkTop frameKind = iota
	fkInline        // resume caller after call instruction
	fkDefer         // deferred call being run; afterwards continue RunDefers
	fkCallback      // closure run on behalf of a contract (e.g. RunTransaction)
)

func (f *Frame) clone() *Frame {
	if f == nil {
		return nil
	}
	n := *f
	n.vals = make(map[ssa.Value]Val, len(f.vals))
	for k, v := range f.vals {
		n.vals[k] = v
	}
	n.names = make(map[string]Val, len(f.names))
	for k, v := range f.names {
		n.names[k] = v
	}
	n.defers = append([]deferred(nil), f.defers...)
	n.variant = map[int]string{}
	for k, v := range f.variant {
		n.variant[k] = v
	}
	n.loopOld = map[int]Heap{}
	for k, v := range f.loopOld {
		n.loopOld[k] = v
	}
	n.locals = make(map[*ssa.Alloc]Val, len(f.locals))
	for k, v := range f.locals {
		n.locals[k] = v
	}
	n.parent = f.parent.clone()
	return &n
}

type iterState struct {
	m     string // map ref
	seen  string // (Array K Bool)
	mty   types.Type
	isStr bool
	str   string
	pos   string
}

type State struct {
	pc    []string
	H     Heap // heap key -> current term
	alloc string
	fr    *Frame
	iters map[ssa.Value]*iterState
	trail []string
	sents []string // sentinel constants already related in pc
	dead  bool
	notes []string
	cbRes map[string]Val
}

func (s *State) clone() *State {
	n := &State{alloc: s.alloc, dead: s.dead}
	n.pc = append([]string(nil), s.pc...)
	n.H = s.H.copy()
	n.fr = s.fr.clone()
	n.iters = make(map[ssa.Value]*iterState, len(s.iters))
	for k, v := range s.iters {
		c := *v
		n.iters[k] = &c
	}
	n.trail = append([]string(nil), s.trail...)
	n.sents = append([]string(nil), s.sents...)
	n.notes = append([]string(nil), s.notes...)
	if s.cbRes != nil {
		n.cbRes = map[string]Val{}
		for k, v := range s.cbRes {
			n.cbRes[k] = v
		}
	}
	return n
}

func (s *State) assume(t string) {
	if t == "true" || t == "" {
		return
	}
	// conjunctions are recorded fact by fact: literal facts decide later branches syntactically
	// (Exec.fork) and survive hypothesis slicing on their own
	if strings.HasPrefix(t, "(and ") && len(t) < 200000 {
		if n := parseSx(t); n != nil && n.kids != nil && n.head() == "and" {
			for _, k := range n.kids[1:] {
				s.assume(k.String())
			}
			return
		}
	}
	s.pc = append(s.pc, t)
}

// decided reports whether the path condition contains cond (1) or its negation (-1) literally.
func (s *State) decided(cond string) int {
	neg := negLit(cond)
	alts := []string{cond}
	nalts := []string{neg}
	if f := flipEq(cond); f != "" {
		alts = append(alts, f)
		nalts = append(nalts, negLit(f))
	}
	if f := flipEq(neg); f != "" {
		nalts = append(nalts, f)
		alts = append(alts, negLit(f))
	}
	for i := len(s.pc) - 1; i >= 0; i-- {
		f := s.pc[i]
		if len(f) > 400 {
			continue
		}
		for _, a := range alts {
			if f == a {
				return 1
			}
		}
		for _, a := range nalts {
			if f == a {
				return -1
			}
		}
	}
	return 0
}

func negLit(c string) string {
	if strings.HasPrefix(c, "(not ") && strings.HasSuffix(c, ")") {
		return c[5 : len(c)-1]
	}
	return "(not " + c + ")"
}

// flipEq: "(= a b)" -> "(= b a)" (also under one negation); "" if c is not an equality.
func flipEq(c string) string {
	if strings.HasPrefix(c, "(not ") {
		if f := flipEq(c[5 : len(c)-1]); f != "" {
			return "(not " + f + ")"
		}
		return ""
	}
	if !strings.HasPrefix(c, "(= ") {
		return ""
	}
	n := parseSx(c)
	if n == nil || len(n.kids) != 3 {
		return ""
	}
	return "(= " + n.kids[2].String() + " " + n.kids[1].String() + ")"
}

// Heap maps heap keys to their current SMT array term.  Keys never touched
// denote the symbol key@Epoch; a total havoc just bumps Epoch and clears M.
type Heap struct {
	M     map[string]string
	Epoch int
}

func (h Heap) copy() Heap {
	n := Heap{M: make(map[string]string, len(h.M)), Epoch: h.Epoch}
	for k, v := range h.M {
		n.M[k] = v
	}
	return n
}

// ---------- heap keys ----------

// Heap key kinds:
//   F|<struct type>|<field>            leaf field of scalar type           (Array Int τ)
//   F|<struct type>|<field>#b/#o/#l/#c slice header parts                  (Array Int Int)
//   C|<type>                           cell holding a scalar               (Array Int τ)
//   C|<type>#b...                      cell holding a slice header
//   M|<elem type>                      slice/array element memory          (Array Int (Array Int τ))
//   M|<elem type>#b...                 elements that are slices
//   D|<map type>  V|<map type>  N|<map type>   map domain / values / size
//   G|<struct type>|<ghost field>[#a #o #l]    ghost fields

func (x *Exec) keySort(key string) string {
	if s, ok := x.sorts[key]; ok {
		return s
	}
	panic("no sort recorded for heap key " + key)
}

// markRef records that the heap array `key` holds object references (pointers, maps, slice backings):
// for those, "everything stored designates an object allocated earlier" is asserted once per version.
func (x *Exec) markRef(key string) {
	if x.refKey == nil {
		x.refKey = map[string]bool{}
	}
	x.refKey[key] = true
}

func (x *Exec) wfAxiom(sym, key, alloc string) string {
	x.useTop()
	if strings.HasPrefix(key, "M%") {
		return fmt.Sprintf("(forall ((b!w Int) (i!w Int)) (! (<= (top (select (select %s b!w) i!w)) %s) :pattern ((select (select %s b!w) i!w))))", sym, alloc, sym)
	}
	if strings.HasPrefix(key, "V%") {
		return fmt.Sprintf("(forall ((b!w Int) (i!w Int)) (! (<= (top (select (select %s b!w) i!w)) %s) :pattern ((select (select %s b!w) i!w))))", sym, alloc, sym)
	}
	return fmt.Sprintf("(forall ((o!w Int)) (! (<= (top (select %s o!w)) %s) :pattern ((select %s o!w))))", sym, alloc, sym)
}

func (x *Exec) regKey(key, sort string) string {
	if old, ok := x.sorts[key]; ok && old != sort {
		panic(fmt.Sprintf("heap key %s: sort %s vs %s", key, old, sort))
	}
	x.sorts[key] = sort
	return key
}

func initSym(key string, epoch int) string { return fmt.Sprintf("|%s@%d|", key, epoch) }

// hget returns the current term of a heap key in map h (nil map => pre-state).
func (x *Exec) hget(h Heap, key string) string {
	if x.readLog != nil {
		x.readLog[key] = true
	}
	if t, ok := h.M[key]; ok {
		return t
	}
	n := initSym(key, h.Epoch)
	x.reg.declare(n, x.keySort(key))
	if x.refKey[key] && h.Epoch == 0 {
		x.reg.axiom(n, "wf", x.wfAxiom(n, key, "|alloc@0|"))
	}
	return n
}

func (x *Exec) hset(st *State, key, term string) {
	n := x.reg.fresh(key)
	x.reg.define(n, x.keySort(key), term)
	st.H.M[key] = n
}

// hsetMem updates element memory `key` at backing b (whole inner array, or one element when idx != "")
// and adds the forward frame lemma: a select term over the old version that is not overwritten has the
// same value in the new version (pattern on the OLD term, so facts about earlier memory versions are
// carried forward by E-matching).
func (x *Exec) hsetMem(st *State, key, b, idx, val string) {
	cur := x.hget(st.H, key)
	var term string
	if idx == "" {
		term = store(cur, b, val)
	} else {
		term = store(cur, b, store(sel(cur, b), idx, val))
	}
	x.hset(st, key, term)
	n := st.H.M[key]
	guard := "(not (= c!m " + b + "))"
	if idx != "" {
		guard = "(or (not (= c!m " + b + ")) (not (= k!m " + idx + ")))"
	}
	st.assume(fmt.Sprintf("(forall ((c!m Int) (k!m Int)) (! (=> %s (= (select (select %s c!m) k!m) (select (select %s c!m) k!m))) :pattern ((select (select %s c!m) k!m))))", guard, n, cur, cur))
}

func (x *Exec) havocKey(st *State, key string) {
	n := x.reg.fresh(key)
	x.reg.declare(n, x.keySort(key))
	st.H.M[key] = n
	if x.refKey[key] {
		st.assume(x.wfAxiom(n, key, st.alloc)) // st.alloc is the watermark after the havocking call / loop
	}
}

func fieldKey(structT types.Type, field string) string {
	return "F%" + typeKey(structT) + "%" + field
}

// ---------- fresh values ----------

func (x *Exec) freshInt(hint string) string {
	n := x.reg.fresh(hint)
	x.reg.declare(n, "Int")
	return n
}

func (x *Exec) freshBool(hint string) string {
	n := x.reg.fresh(hint)
	x.reg.declare(n, "Bool")
	return n
}

// rangeFact returns the machine-range assumption for a scalar term of type t.
func rangeFact(t types.Type, term string) string {
	if lo, hi, ok := intRange(t); ok {
		return and(le(lo, term), le(term, hi))
	}
	return "true"
}

// freshVal makes an unconstrained symbolic value of Go type t (with range facts assumed).
func (x *Exec) freshVal(st *State, t types.Type, hint string) Val {
	switch u := under(t).(type) {
	case *types.Struct:
		sv := SV{Ty: t}
		for i := 0; i < u.NumFields(); i++ {
			sv.F = append(sv.F, x.freshVal(st, u.Field(i).Type(), hint+"."+u.Field(i).Name()))
		}
		return sv
	case *types.Slice:
		sl := SL{B: x.freshInt(hint + ".b"), O: x.freshInt(hint + ".o"), L: x.freshInt(hint + ".l"), C: x.freshInt(hint + ".c"), Ty: t}
		st.assume(x.sliceFacts(st, sl))
		return sl
	case *types.Array:
		n := x.reg.fresh(hint)
		x.reg.declare(n, "(Array Int "+sortOf(u.Elem())+")")
		av := AV{A: n, Ty: t}
		x.assumeArrayRange(st, av)
		return av
	case *types.Tuple:
		var tu TU
		for i := 0; i < u.Len(); i++ {
			tu = append(tu, x.freshVal(st, u.At(i).Type(), fmt.Sprintf("%s.%d", hint, i)))
		}
		return tu
	default:
		if isFloat(t) {
			panic(unsupported("floating point"))
		}
		if isBool(t) {
			return TV{x.freshBool(hint), t}
		}
		tv := TV{x.freshInt(hint), t}
		st.assume(rangeFact(t, tv.T))
		if isString(t) {
			x.useStr()
		}
		if isPointer(t) || isMap(t) {
			st.assume(x.oldRef(st, tv.T))
		}
		return tv
	}
}

func (x *Exec) assumeArrayRange(st *State, av AV) {
	at := under(av.Ty).(*types.Array)
	if lo, hi, ok := intRange(at.Elem()); ok {
		st.assume(fmt.Sprintf("(forall ((j Int)) (! (and (<= %s (select %s j)) (<= (select %s j) %s)) :pattern ((select %s j))))", lo, av.A, av.A, hi, av.A))
	}
}

// sliceFacts: well-formedness of a slice header.
func (x *Exec) sliceFacts(st *State, s SL) string {
	return and(le("0", s.O), le("0", s.L), le(s.L, s.C), le(add(s.O, s.C), "4611686018427387904"),
		implies(eq(s.B, "0"), and(eq(s.L, "0"), eq(s.C, "0"), eq(s.O, "0"))), le("0", s.B), x.oldRef(st, s.B))
}

// oldRef: the object a pointer designates existed before the current allocation watermark.
func (x *Exec) oldRef(st *State, p string) string {
	x.useTop()
	return le("(top "+p+")", st.alloc)
}

func (x *Exec) useTop() {
	x.reg.declare("top", "(Int) Int")
	x.reg.axiom("top", "nil", "(= (top 0) 0)")
}

// kindOf gives every embedding constructor (field of a struct, element of a backing, value slot of a map)
// its own tag, so that objects built by different constructors are provably distinct.
func (x *Exec) kindOf(ctor string) int {
	x.reg.declare("okind", "(Int) Int")
	if k, ok := x.kinds[ctor]; ok {
		return k
	}
	if x.kinds == nil {
		x.kinds = map[string]int{}
	}
	k := len(x.kinds) + 1
	x.kinds[ctor] = k
	return k
}

// newObj allocates a fresh top-level object reference.
func (x *Exec) newObj(st *State, hint string) string {
	x.useTop()
	r := x.freshInt(hint)
	st.assume("(> " + r + " " + st.alloc + ")")
	st.assume("(= (top " + r + ") " + r + ")")
	st.alloc = r
	return r
}

// subObj: reference of the struct-typed field `field` embedded in object r of struct type T.
func (x *Exec) subObj(structT types.Type, field string, r string) string {
	x.useTop()
	f := "|sub:" + typeKey(structT) + "." + field + "|"
	inv := "|par:" + typeKey(structT) + "." + field + "|"
	x.reg.declare(f, "(Int) Int")
	x.reg.declare(inv, "(Int) Int")
	x.reg.axiom(f, "kind", fmt.Sprintf("(forall ((r Int)) (! (= (okind (%s r)) %d) :pattern ((%s r))))", f, x.kindOf(f), f))
	x.reg.axiom(f, "inj", fmt.Sprintf("(forall ((r Int)) (! (and (= (%s (%s r)) r) (= (top (%s r)) (top r)) (not (= (%s r) 0)) (not (= (%s r) r)) (not (= (top (%s r)) (%s r)))) :pattern ((%s r))))", inv, f, f, f, f, f, f, f))
	return "(" + f + " " + r + ")"
}

// elemObj: reference of the i-th (absolute index) struct element of backing b.
func (x *Exec) elemObj(elemT types.Type, b, i string) string {
	x.useTop()
	f := "|elem:" + typeKey(elemT) + "|"
	fb := "|elemB:" + typeKey(elemT) + "|"
	fi := "|elemI:" + typeKey(elemT) + "|"
	x.reg.declare(f, "(Int Int) Int")
	x.reg.declare(fb, "(Int) Int")
	x.reg.declare(fi, "(Int) Int")
	x.reg.axiom(f, "kind", fmt.Sprintf("(forall ((b Int) (i Int)) (! (= (okind (%s b i)) %d) :pattern ((%s b i))))", f, x.kindOf(f), f))
	x.reg.axiom(f, "inj", fmt.Sprintf("(forall ((b Int) (i Int)) (! (and (= (%s (%s b i)) b) (= (%s (%s b i)) i) (= (top (%s b i)) (top b)) (not (= (%s b i) 0)) (not (= (top (%s b i)) (%s b i)))) :pattern ((%s b i))))", fb, f, fi, f, f, f, f, f, f))
	return "(" + f + " " + b + " " + i + ")"
}

// melemObj: object holding the struct value of map m at key k.
func (x *Exec) melemObj(mapT types.Type, m, k string) string {
	x.useTop()
	f := "|melem:" + typeKey(mapT) + "|"
	fb := "|melemM:" + typeKey(mapT) + "|"
	fi := "|melemK:" + typeKey(mapT) + "|"
	x.reg.declare(f, "(Int Int) Int")
	x.reg.declare(fb, "(Int) Int")
	x.reg.declare(fi, "(Int) Int")
	x.reg.axiom(f, "kind", fmt.Sprintf("(forall ((b Int) (i Int)) (! (= (okind (%s b i)) %d) :pattern ((%s b i))))", f, x.kindOf(f), f))
	x.reg.axiom(f, "inj", fmt.Sprintf("(forall ((b Int) (i Int)) (! (and (= (%s (%s b i)) b) (= (%s (%s b i)) i) (= (top (%s b i)) (top b)) (not (= (%s b i) 0)) (not (= (top (%s b i)) (%s b i)))) :pattern ((%s b i))))", fb, f, fi, f, f, f, f, f, f))
	return "(" + f + " " + m + " " + k + ")"
}

// ---------- typed memory access ----------

// leafSort for heap arrays holding values of scalar type t.
func arrSort(t types.Type) string { return "(Array Int " + sortOf(t) + ")" }

// loadLoc reads a value of type t stored at location (key prefix, object ref).
// For struct types the location is the object itself.
func (x *Exec) loadField(st *State, h Heap, structT types.Type, fld *types.Var, obj string) Val {
	return x.loadAt(st, h, fieldKey(structT, fld.Name()), obj, fld.Type(), func() string { return x.subObj(structT, fld.Name(), obj) })
}

// loadAt: generic load of a value of type t at (key,obj); subRef yields the sub-object ref for struct/array types.
func (x *Exec) loadAt(st *State, h Heap, key, obj string, t types.Type, subRef func() string) Val {
	switch u := under(t).(type) {
	case *types.Struct:
		return x.loadStruct(st, h, t, subRef())
	case *types.Slice:
		for _, p := range []string{"#b", "#o", "#l", "#c"} {
			x.regKey(key+p, "(Array Int Int)")
		}
		x.markRef(key + "#b")
		sl := SL{B: sel(x.hget(h, key+"#b"), obj), O: sel(x.hget(h, key+"#o"), obj), L: sel(x.hget(h, key+"#l"), obj), C: sel(x.hget(h, key+"#c"), obj), Ty: t}
		if st != nil {
			st.assume(x.sliceFacts(st, sl))
		}
		return sl
	case *types.Array:
		// the location is a backing store of its own
		mk := x.memKey(u.Elem())
		return AV{A: sel(x.hget(h, mk), subRef()), Ty: t}
	default:
		if isFloat(t) {
			panic(unsupported("floating point"))
		}
		x.regKey(key, arrSort(t))
		if isPointer(t) || isMap(t) {
			x.markRef(key)
		}
		tv := TV{sel(x.hget(h, key), obj), t}
		if st != nil {
			st.assume(rangeFact(t, tv.T))
			if isPointer(t) || isMap(t) {
				st.assume(x.oldRef(st, tv.T))
			}
		}
		if isString(t) {
			x.useStr()
		}
		return tv
	}
}

func (x *Exec) loadStruct(st *State, h Heap, t types.Type, obj string) Val {
	u := under(t).(*types.Struct)
	sv := SV{Ty: t}
	for i := 0; i < u.NumFields(); i++ {
		sv.F = append(sv.F, x.loadField(st, h, t, u.Field(i), obj))
	}
	return sv
}

func (x *Exec) storeField(st *State, structT types.Type, fld *types.Var, obj string, v Val) {
	x.storeAt(st, fieldKey(structT, fld.Name()), obj, fld.Type(), v, func() string { return x.subObj(structT, fld.Name(), obj) })
}

func (x *Exec) storeAt(st *State, key, obj string, t types.Type, v Val, subRef func() string) {
	switch u := under(t).(type) {
	case *types.Struct:
		x.storeStruct(st, t, subRef(), v)
	case *types.Slice:
		sl := x.asSlice(v, t)
		parts := []string{sl.B, sl.O, sl.L, sl.C}
		for i, p := range []string{"#b", "#o", "#l", "#c"} {
			x.regKey(key+p, "(Array Int Int)")
			x.hset(st, key+p, store(x.hget(st.H, key+p), obj, parts[i]))
		}
	case *types.Array:
		mk := x.memKey(u.Elem())
		av := v.(AV)
		x.hsetMem(st, mk, subRef(), "", av.A)
	default:
		x.regKey(key, arrSort(t))
		x.hset(st, key, store(x.hget(st.H, key), obj, x.scalar(v)))
	}
}

func (x *Exec) storeStruct(st *State, t types.Type, obj string, v Val) {
	u := under(t).(*types.Struct)
	sv, ok := v.(SV)
	if !ok {
		panic(fmt.Sprintf("storeStruct: not a struct value: %T for %v", v, t))
	}
	for i := 0; i < u.NumFields(); i++ {
		x.storeField(st, t, u.Field(i), obj, sv.F[i])
	}
}

// memKey: element memory of slices/arrays with scalar element type t.
func (x *Exec) memKey(elem types.Type) string {
	k := "M%" + typeKey(elem)
	x.regKey(k, "(Array Int (Array Int "+sortOf(elem)+"))")
	return k
}

// loadElem reads element at absolute index i of backing b.
func (x *Exec) loadElem(st *State, h Heap, elem types.Type, b, i string) Val {
	switch u := under(elem).(type) {
	case *types.Struct:
		return x.loadStruct(st, h, elem, x.elemObj(elem, b, i))
	case *types.Slice:
		base := "M%" + typeKey(elem)
		var parts [4]string
		for n, p := range []string{"#b", "#o", "#l", "#c"} {
			x.regKey(base+p, "(Array Int (Array Int Int))")
			parts[n] = sel(sel(x.hget(h, base+p), b), i)
		}
		sl := SL{B: parts[0], O: parts[1], L: parts[2], C: parts[3], Ty: elem}
		if st != nil {
			st.assume(x.sliceFacts(st, sl))
		}
		return sl
	case *types.Array:
		_ = u
		panic(unsupported("array of arrays"))
	default:
		mk := x.memKey(elem)
		if isPointer(elem) || isMap(elem) {
			x.markRef(mk)
		}
		tv := TV{sel(sel(x.hget(h, mk), b), i), elem}
		if st != nil {
			st.assume(rangeFact(elem, tv.T))
			if isPointer(elem) || isMap(elem) {
				st.assume(x.oldRef(st, tv.T))
			}
		}
		if isString(elem) {
			x.useStr()
		}
		return tv
	}
}

func (x *Exec) storeElem(st *State, elem types.Type, b, i string, v Val) {
	switch under(elem).(type) {
	case *types.Struct:
		x.storeStruct(st, elem, x.elemObj(elem, b, i), v)
	case *types.Slice:
		base := "M%" + typeKey(elem)
		sl := x.asSlice(v, elem)
		parts := []string{sl.B, sl.O, sl.L, sl.C}
		for n, p := range []string{"#b", "#o", "#l", "#c"} {
			x.regKey(base+p, "(Array Int (Array Int Int))")
			cur := x.hget(st.H, base+p)
			_ = cur
			x.hsetMem(st, base+p, b, i, parts[n])
		}
	default:
		mk := x.memKey(elem)
		cur := x.hget(st.H, mk)
		_ = cur
		x.hsetMem(st, mk, b, i, x.scalar(v))
	}
}

// cellKey: heap key of a cell (pointer target) of scalar/slice type t.
func cellKey(t types.Type) string { return "C%" + typeKey(t) }

// loadPtr dereferences pointer value p (a reference) of pointee type t.
func (x *Exec) loadPtr(st *State, h Heap, p string, t types.Type) Val {
	switch under(t).(type) {
	case *types.Struct:
		return x.loadStruct(st, h, t, p)
	default:
		return x.loadAt(st, h, cellKey(t), p, t, func() string { return p })
	}
}

func (x *Exec) storePtr(st *State, p string, t types.Type, v Val) {
	switch under(t).(type) {
	case *types.Struct:
		x.storeStruct(st, t, p, v)
	default:
		x.storeAt(st, cellKey(t), p, t, v, func() string { return p })
	}
}

// leafKeys enumerates the heap keys that a store of a value of type t at a
// pointer location may touch (for modifies/havoc computation).
func (x *Exec) leafKeys(t types.Type, prefix string, out map[string]bool, seen map[string]bool) {
	switch u := under(t).(type) {
	case *types.Struct:
		tk := typeKey(t)
		if seen[tk] {
			return
		}
		seen[tk] = true
		for i := 0; i < u.NumFields(); i++ {
			f := u.Field(i)
			x.leafKeysAt(fieldKey(t, f.Name()), f.Type(), out, seen)
		}
		delete(seen, tk)
	default:
		x.leafKeysAt(prefix, t, out, seen)
	}
}

func (x *Exec) leafKeysAt(key string, t types.Type, out map[string]bool, seen map[string]bool) {
	switch u := under(t).(type) {
	case *types.Struct:
		x.leafKeys(t, "", out, seen)
	case *types.Slice:
		for _, p := range []string{"#b", "#o", "#l", "#c"} {
			x.regKey(key+p, sliceHdrSort(key))
			out[key+p] = true
		}
	case *types.Array:
		x.elemKeys(u.Elem(), out, seen)
	default:
		if isFloat(t) {
			return
		}
		if strings.HasPrefix(key, "M%") {
			x.regKey(key, "(Array Int (Array Int "+sortOf(t)+"))")
		} else {
			x.regKey(key, arrSort(t))
		}
		out[key] = true
	}
}

func sliceHdrSort(key string) string {
	if strings.HasPrefix(key, "M%") {
		return "(Array Int (Array Int Int))"
	}
	return "(Array Int Int)"
}

// elemKeys: keys touched by writing an element of type elem into slice memory.
func (x *Exec) elemKeys(elem types.Type, out map[string]bool, seen map[string]bool) {
	switch under(elem).(type) {
	case *types.Struct:
		x.leafKeys(elem, "", out, seen)
	default:
		x.leafKeysAt("M%"+typeKey(elem), elem, out, seen)
	}
}

// ---------- maps ----------

func (x *Exec) mapKeys(mt types.Type) (dom, val, size string) {
	m := under(mt).(*types.Map)
	tk := typeKey(mt)
	dom, val, size = "D%"+tk, "V%"+tk, "N%"+tk
	x.regKey(dom, "(Array Int (Array "+sortOf(m.Key())+" Bool))")
	if isScalar(m.Elem()) {
		x.regKey(val, "(Array Int (Array "+sortOf(m.Key())+" "+sortOf(m.Elem())+"))")
	}
	x.regKey(size, "(Array Int Int)")
	return
}

func sortedKeys(m map[string]bool) []string {
	var ks []string
	for k := range m {
		ks = append(ks, k)
	}
	sort.Strings(ks)
	return ks
}

type unsupportedErr struct{ what string }

func (u unsupportedErr) Error() string { return "unsupported: " + u.what }

func unsupported(what string) unsupportedErr { return unsupportedErr{what} }
