package vc

// Symbolic values, sorts, type keys.

import (
	"regexp"
	"fmt"
	"go/types"
	"strings"

	"golang.org/x/tools/go/ssa"
)

// Val is a symbolic value held in an SSA register or produced by a contract expression.
type Val interface{}

// TV: scalar term (SMT sort Int or Bool) with its Go (or spec) type.
type TV struct {
	T  string
	Ty types.Type
}

// SV: struct value, fields in declaration order.
type SV struct {
	Ty types.Type // named or struct type
	F  []Val
}

// SL: slice value.
type SL struct {
	B, O, L, C string
	Ty         types.Type // slice type
}

// AV: Go array value (e.g. uuid.UUID = [16]byte): an SMT array term indexed from 0.
type AV struct {
	A  string
	Ty types.Type // array type (maybe named)
}

// TU: tuple.
type TU []Val

// AD: address of a leaf location that is not materialised as an object reference.
type AD struct {
	Kind string // "field": heap key + object ref ; "elem": slice memory cell
	Key  string // heap key (field) or elem-type mem key
	Obj  string // object ref / backing ref
	Idx  string // element index (elem)
	Ty   types.Type

	structT types.Type
	fld     *types.Var
	elemT   types.Type
}

// CL: closure / function value with a statically known body.
type CL struct {
	Fn   *ssa.Function
	Bind []Val
	Ty   types.Type
}

// SQ: spec-level sequence (array term, offset, length).
type SQ struct {
	A, O, L string
	Elem    SpecType
}

// ST: spec-level set / map-domain (array term K -> Bool).
type ST struct {
	A    string
	Elem SpecType
}

// GM: ghost map (array term K -> V).
type GM struct {
	A    string
	Elem types.Type
}

// SpecType is either a Go type or a spec-only container type.
type SpecType struct {
	Go   types.Type
	Kind string // "" (Go) | seq | set
	Elem *SpecType
}

func goST(t types.Type) SpecType { return SpecType{Go: t} }

func (s SpecType) String() string {
	if s.Kind == "" {
		if s.Go == nil {
			return "?"
		}
		return s.Go.String()
	}
	return s.Kind + "[" + s.Elem.String() + "]"
}

// ---------- type helpers ----------

func under(t types.Type) types.Type {
	if t == nil {
		return nil
	}
	return t.Underlying()
}

func isBool(t types.Type) bool {
	b, ok := under(t).(*types.Basic)
	return ok && b.Info()&types.IsBoolean != 0
}

func isString(t types.Type) bool {
	b, ok := under(t).(*types.Basic)
	return ok && b.Info()&types.IsString != 0
}

func isInteger(t types.Type) bool {
	b, ok := under(t).(*types.Basic)
	return ok && b.Info()&types.IsInteger != 0
}

func isUnsigned(t types.Type) bool {
	b, ok := under(t).(*types.Basic)
	return ok && b.Info()&types.IsUnsigned != 0
}

func isStruct(t types.Type) bool {
	_, ok := under(t).(*types.Struct)
	return ok
}

func isSlice(t types.Type) bool {
	_, ok := under(t).(*types.Slice)
	return ok
}

func isArray(t types.Type) bool {
	_, ok := under(t).(*types.Array)
	return ok
}

func isPointer(t types.Type) bool {
	_, ok := under(t).(*types.Pointer)
	return ok
}

func isInterface(t types.Type) bool {
	_, ok := under(t).(*types.Interface)
	return ok
}

func isMap(t types.Type) bool {
	_, ok := under(t).(*types.Map)
	return ok
}

func isFloat(t types.Type) bool {
	b, ok := under(t).(*types.Basic)
	return ok && b.Info()&(types.IsFloat|types.IsComplex) != 0
}

// scalar types are represented by one SMT term.
func isScalar(t types.Type) bool {
	switch u := under(t).(type) {
	case *types.Basic:
		return true
	case *types.Pointer, *types.Map, *types.Chan, *types.Interface, *types.Signature:
		return true
	case *types.Tuple:
		return false
	default:
		_ = u
		return false
	}
}

func sortOf(t types.Type) string {
	if isBool(t) {
		return "Bool"
	}
	return "Int"
}

// intRange returns (lo, hi, ok) of a machine integer type.
func intRange(t types.Type) (string, string, bool) {
	b, ok := under(t).(*types.Basic)
	if !ok || b.Info()&types.IsInteger == 0 {
		return "", "", false
	}
	switch b.Kind() {
	case types.Int, types.Int64, types.UntypedInt:
		return "(- 9223372036854775808)", "9223372036854775807", true
	case types.Int32, types.UntypedRune:
		return "(- 2147483648)", "2147483647", true
	case types.Int16:
		return "(- 32768)", "32767", true
	case types.Int8:
		return "(- 128)", "127", true
	case types.Uint, types.Uint64, types.Uintptr:
		return "0", "18446744073709551615", true
	case types.Uint32:
		return "0", "4294967295", true
	case types.Uint16:
		return "0", "65535", true
	case types.Uint8:
		return "0", "255", true
	}
	return "", "", false
}

func sanitize(s string) string {
	r := strings.NewReplacer(" ", "_", "|", "!", "\\", "!", "\t", "_", "\n", "_", "(", "<", ")", ">", ";", "_", "\"", "'")
	return r.Replace(s)
}

// typeKey is the stable name of a type used in heap keys.
var aliasRe = regexp.MustCompile(`\b(byte|rune)\b`)

// typeKey names a type for heap keys; the predeclared aliases are folded into the types they stand for
// ([]byte and []uint8 are the same memory).
func typeKey(t types.Type) string {
	s := types.TypeString(t, nil)
	if strings.Contains(s, "byte") || strings.Contains(s, "rune") {
		s = aliasRe.ReplaceAllStringFunc(s, func(m string) string {
			if m == "byte" {
				return "uint8"
			}
			return "int32"
		})
	}
	return sanitize(s)
}

func deref(t types.Type) types.Type {
	if p, ok := under(t).(*types.Pointer); ok {
		return p.Elem()
	}
	panic(fmt.Sprintf("deref of non-pointer %v", t))
}

// ---------- SMT term helpers ----------

func and(xs ...string) string {
	var ys []string
	for _, x := range xs {
		if x == "true" || x == "" {
			continue
		}
		if x == "false" {
			return "false"
		}
		ys = append(ys, x)
	}
	switch len(ys) {
	case 0:
		return "true"
	case 1:
		return ys[0]
	}
	return "(and " + strings.Join(ys, " ") + ")"
}

func or(xs ...string) string {
	var ys []string
	for _, x := range xs {
		if x == "false" || x == "" {
			continue
		}
		if x == "true" {
			return "true"
		}
		ys = append(ys, x)
	}
	switch len(ys) {
	case 0:
		return "false"
	case 1:
		return ys[0]
	}
	return "(or " + strings.Join(ys, " ") + ")"
}

func not(x string) string {
	switch x {
	case "true":
		return "false"
	case "false":
		return "true"
	}
	if strings.HasPrefix(x, "(not ") && balanced(x[5:len(x)-1]) {
		return x[5 : len(x)-1]
	}
	return "(not " + x + ")"
}

func balanced(s string) bool {
	d := 0
	inq := false
	for _, c := range s {
		if c == '|' {
			inq = !inq
		}
		if inq {
			continue
		}
		if c == '(' {
			d++
		} else if c == ')' {
			d--
			if d < 0 {
				return false
			}
		}
	}
	return d == 0
}

func implies(a, b string) string {
	if a == "true" {
		return b
	}
	if a == "false" || b == "true" {
		return "true"
	}
	return "(=> " + a + " " + b + ")"
}

func eq(a, b string) string {
	if a == b {
		return "true"
	}
	return "(= " + a + " " + b + ")"
}

func ite(c, a, b string) string {
	if c == "true" {
		return a
	}
	if c == "false" {
		return b
	}
	if a == b {
		return a
	}
	return "(ite " + c + " " + a + " " + b + ")"
}

func sel(a, i string) string { return "(select " + a + " " + i + ")" }

func store(a, i, v string) string { return "(store " + a + " " + i + " " + v + ")" }

func add(a, b string) string {
	if a == "0" {
		return b
	}
	if b == "0" {
		return a
	}
	return "(+ " + a + " " + b + ")"
}

func sub(a, b string) string {
	if b == "0" {
		return a
	}
	if a == b {
		return "0"
	}
	return "(- " + a + " " + b + ")"
}

func le(a, b string) string { return "(<= " + a + " " + b + ")" }
func lt(a, b string) string { return "(< " + a + " " + b + ")" }

func intLit(n int64) string {
	if n < 0 {
		return fmt.Sprintf("(- %d)", -n)
	}
	return fmt.Sprintf("%d", n)
}

func isIntLiteral(s string) bool {
	if s == "" {
		return false
	}
	for _, c := range s {
		if c < '0' || c > '9' {
			return false
		}
	}
	return true
}
