package vc

// Forward symbolic execution of go/ssa: one path at a time, loops cut at their
// headers by invariants, calls replaced by contracts (or inlined when the
// callee is transparent / has no contract), obligations collected per name.

import (
	"fmt"
	"go/ast"
	"go/constant"
	"go/token"
	"go/types"
	"sort"
	"strings"

	"golang.org/x/tools/go/ssa"
)

type PathQuery struct {
	PC    []string
	Goal  string
	Alt   string // equivalent formulation of Goal (other triggers); the obligation holds if either is proved
	Trail string
}

type Obligation struct {
	Name    string
	Kind    string // ensures | requires-at-call | invariant | decreases | safety | lemma
	Src     string
	Queries []PathQuery
}

type Exec struct {
	P        *Program
	reg      *Registry
	sorts    map[string]string
	top      *ssa.Function
	spec     *FuncSpec
	obls     map[string]*Obligation
	order    []string
	work     []*State
	paths    int
	MaxPaths int
	warns    map[string]bool
	trusted  map[string]bool // trusted contracts used
	unspec   map[string]bool // external callees without any contract
	inlined  map[string]bool
	calledBy map[string]bool // contracts (verified elsewhere) relied upon
	strLits  map[string]string
	globals  []string
	tids     []string
	fail     error
	entry    map[string]Val
	safeOrd  map[ssa.Instruction]int
	loops    map[*ssa.Function]*loopInfo
	modMemo  map[*ssa.Function]map[string]bool
	modBusy  map[*ssa.Function]bool
	retPaths int
	kinds    map[string]int
	refKey   map[string]bool
	onceMemo map[*ssa.Alloc]bool
	allowed  map[string]bool
	allowAll bool
	allowDone bool
	escMemo  map[*ssa.Alloc]bool
	refined  map[string]bool
	noImpl   []string
	readLog  map[string]bool            // when non-nil: heap keys read (for opaque spec functions)
	opReads  map[string][]string        // opaque func -> heap keys its body reads
	opSyms   map[string]string          // opaque func + heap tuple -> UF symbol
	Observe  map[string]string // name -> contract expression evaluated in the entry state (for counterexample replay)
	obsTerms map[string]string
	coverPC  [][]string
}

func newExec(p *Program, fn *ssa.Function, spec *FuncSpec) *Exec {
	return &Exec{P: p, reg: newRegistry(), sorts: map[string]string{}, top: fn, spec: spec,
		obls: map[string]*Obligation{}, MaxPaths: 4000, warns: map[string]bool{}, trusted: map[string]bool{},
		unspec: map[string]bool{}, inlined: map[string]bool{}, calledBy: map[string]bool{}, strLits: map[string]string{},
		safeOrd: map[ssa.Instruction]int{}, loops: map[*ssa.Function]*loopInfo{}, modMemo: map[*ssa.Function]map[string]bool{}, modBusy: map[*ssa.Function]bool{}}
}

func (x *Exec) warn(format string, a ...interface{}) { x.warns[fmt.Sprintf(format, a...)] = true }

func (x *Exec) oblige(st *State, name, kind, src, goal string) {
	if goal == "true" {
		// still register the obligation so that counts are stable
		if _, ok := x.obls[name]; !ok {
			x.obls[name] = &Obligation{Name: name, Kind: kind, Src: src}
			x.order = append(x.order, name)
		}
		return
	}
	o, ok := x.obls[name]
	if !ok {
		o = &Obligation{Name: name, Kind: kind, Src: src}
		x.obls[name] = o
		x.order = append(x.order, name)
	}
	pc := append([]string(nil), st.pc...)
	for _, g := range splitGoal(goal) {
		o.Queries = append(o.Queries, PathQuery{PC: pc, Goal: g.goal, Alt: g.alt, Trail: strings.Join(st.trail, ">")})
	}
}

// splitGoal distributes a goal over its top-level conjunctions (also under implications and
// universal quantifiers), so that each solver query proves one small fact.
type goalPart struct{ goal, alt string }

func splitGoal(goal string) []goalPart {
	if len(goal) < 400 {
		return []goalPart{{goal: goal}}
	}
	var parts []goalPart
	var rec func(n *sx, wrap func(string) string, depth int)
	rec = func(n *sx, wrap func(string) string, depth int) {
		if depth < 8 && n.kids != nil {
			switch n.head() {
			case "and":
				skip := map[string]bool{}
				for _, k := range n.kids[1:] {
					ks := k.String()
					if skip[ks] {
						continue
					}
					if alt, ok := altVariant[ks]; ok {
						// the two equivalent variants of one quantified formula: one query, either may be proved
						for _, k2 := range n.kids[1:] {
							if k2.String() == parseSx(alt).String() {
								skip[k2.String()] = true
								parts = append(parts, goalPart{goal: wrap(ks), alt: wrap(k2.String())})
								ks = ""
								break
							}
						}
						if ks == "" {
							continue
						}
					}
					rec(k, wrap, depth) // flattening conjunctions does not count as nesting
				}
				return
			case "=>":
				if len(n.kids) == 3 {
					p := n.kids[1].String()
					rec(n.kids[2], func(s string) string { return wrap("(=> " + p + " " + s + ")") }, depth+1)
					return
				}
			case "forall":
				if len(n.kids) == 3 {
					vars := n.kids[1].String()
					body := n.kids[2]
					pats := ""
					if body.head() == "!" && len(body.kids) >= 2 {
						for _, k := range body.kids[2:] {
							pats += " " + k.String()
						}
						body = body.kids[1]
					}
					rec(body, func(s string) string {
						if pats != "" {
							return wrap("(forall " + vars + " (! " + s + pats + "))")
						}
						return wrap("(forall " + vars + " " + s + ")")
					}, depth+1)
					return
				}
			}
		}
		parts = append(parts, goalPart{goal: wrap(n.String())})
	}
	rec(parseSx(goal), func(s string) string { return s }, 0)
	if len(parts) > 600 || len(parts) == 0 {
		return []goalPart{{goal: goal}}
	}
	return parts
}

// ---------- strings ----------

func (x *Exec) useStr() {
	x.reg.declare("strlen", "(Int) Int")
	x.reg.declare("strat", "(Int Int) Int")
	x.reg.declare("str_empty", "Int")
	x.reg.axiom("strlen", "nonneg", "(forall ((s Int)) (! (and (>= (strlen s) 0) (<= (strlen s) 4611686018427387904)) :pattern ((strlen s))))")
	x.reg.axiom("strlen", "empty", "(forall ((s Int)) (! (=> (= (strlen s) 0) (= s str_empty)) :pattern ((strlen s))))")
	x.reg.axiom("str_empty", "len", "(= (strlen str_empty) 0)")
	x.reg.axiom("strat", "byte", "(forall ((s Int) (i Int)) (! (and (<= 0 (strat s i)) (<= (strat s i) 255)) :pattern ((strat s i))))")
}

func (x *Exec) strLit(s string) string {
	x.useStr()
	if s == "" {
		return "str_empty"
	}
	if n, ok := x.strLits[s]; ok {
		return n
	}
	name := fmt.Sprintf("|str:%s#%d|", sanitize(shorten(s, 30)), len(x.strLits))
	x.reg.declare(name, "Int")
	x.reg.axiom(name, "len", fmt.Sprintf("(= (strlen %s) %d)", name, len(s)))
	if len(s) <= 48 {
		var cs []string
		for i := 0; i < len(s); i++ {
			cs = append(cs, fmt.Sprintf("(= (strat %s %d) %d)", name, i, s[i]))
		}
		x.reg.axiom(name, "bytes", and(cs...))
	}
	// distinct from earlier literals
	var keys []string
	for k := range x.strLits {
		keys = append(keys, k)
	}
	sort.Strings(keys)
	for _, k := range keys {
		x.reg.axiom(name, "ne:"+x.strLits[k], fmt.Sprintf("(not (= %s %s))", name, x.strLits[k]))
	}
	x.strLits[s] = name
	return name
}

func shorten(s string, n int) string {
	if len(s) > n {
		return s[:n]
	}
	return s
}

func (x *Exec) strcat(a, b string) string {
	x.useStr()
	if a == "str_empty" {
		return b
	}
	if b == "str_empty" {
		return a
	}
	x.reg.declare("strcat", "(Int Int) Int")
	x.reg.axiom("strcat", "len", "(forall ((a Int) (b Int)) (! (= (strlen (strcat a b)) (+ (strlen a) (strlen b))) :pattern ((strcat a b))))")
	x.reg.axiom("strcat", "at", "(forall ((a Int) (b Int) (i Int)) (! (= (strat (strcat a b) i) (ite (< i (strlen a)) (strat a i) (strat b (- i (strlen a))))) :pattern ((strat (strcat a b) i))))")
	x.reg.axiom("strcat", "inj", "(forall ((a Int) (b Int) (c Int)) (! (=> (= (strcat a b) (strcat a c)) (= b c)) :pattern ((strcat a b) (strcat a c))))")
	return "(strcat " + a + " " + b + ")"
}

// ---------- globals, type ids, interfaces ----------

func (x *Exec) globalRef(g *ssa.Global) string {
	x.useTop()
	name := "|glob:" + sanitize(g.Pkg.Pkg.Path()+"."+g.Name()) + "|"
	if _, ok := x.reg.byName[name]; !ok {
		x.reg.declare(name, "Int")
		x.reg.axiom(name, "old", fmt.Sprintf("(and (> %s 0) (= (top %s) %s) (<= %s |alloc@0|))", name, name, name, name))
		x.reg.declare("|alloc@0|", "Int")
		for _, o := range x.globals {
			x.reg.axiom(name, "ne:"+o, fmt.Sprintf("(not (= %s %s))", name, o))
		}
		x.globals = append(x.globals, name)
	}
	return name
}

func (x *Exec) typeID(t types.Type) string {
	name := "|tid:" + typeKey(t) + "|"
	if _, ok := x.reg.byName[name]; !ok {
		x.reg.declare(name, "Int")
		for _, o := range x.tids {
			x.reg.axiom(name, "ne:"+o, fmt.Sprintf("(not (= %s %s))", name, o))
		}
		x.tids = append(x.tids, name)
	}
	return name
}

func (x *Exec) useIface() {
	x.reg.declare("mkiface", "(Int Int) Int")
	x.reg.declare("itype", "(Int) Int")
	x.reg.declare("ival", "(Int) Int")
	x.reg.axiom("mkiface", "proj", "(forall ((t Int) (v Int)) (! (and (= (itype (mkiface t v)) t) (= (ival (mkiface t v)) v) (not (= (mkiface t v) 0))) :pattern ((mkiface t v))))")
}

func (x *Exec) useErr() {
	x.reg.declare("errIs", "(Int Int) Bool")
	x.reg.axiom("errIs", "refl", "(forall ((e Int)) (! (=> (not (= e 0)) (errIs e e)) :pattern ((errIs e e))))")
	x.reg.axiom("errIs", "nil", "(forall ((t Int)) (! (=> (not (= t 0)) (not (errIs 0 t))) :pattern ((errIs 0 t))))")
}

// sentinel: value of a package-level error variable initialised with errors.New and never reassigned.
func (x *Exec) sentinel(st *State, g *ssa.Global) string {
	x.useErr()
	name := "|err:" + sanitize(g.Pkg.Pkg.Path()+"."+g.Name()) + "|"
	if _, ok := x.reg.byName[name]; !ok {
		x.reg.declare(name, "Int")
		x.reg.axiom(name, "plain", fmt.Sprintf("(and (not (= %s 0)) (forall ((t Int)) (! (= (errIs %s t) (= t %s)) :pattern ((errIs %s t)))))", name, name, name, name))
		// a sentinel is a package-level value: it existed before the function under verification was entered
		// (so it differs from every error value created since, e.g. by fmt.Errorf)
		x.useTop()
		x.reg.declare("|alloc@0|", "Int")
		x.reg.axiom(name, "old", fmt.Sprintf("(and (= (top %s) %s) (<= %s |alloc@0|))", name, name, name))
	}
	for _, o := range st.sents {
		if o == name {
			return name
		}
	}
	for _, o := range st.sents {
		st.assume(fmt.Sprintf("(not (= %s %s))", name, o))
	}
	st.sents = append(st.sents, name)
	return name
}

// ---------- value helpers ----------

func (x *Exec) scalar(v Val) string {
	switch v := v.(type) {
	case TV:
		return v.T
	case CL:
		return x.closureID(v)
	case SL:
		if v.B == "0" {
			return "0"
		}
	case nil:
		return "0"
	}
	panic(unsupported(fmt.Sprintf("scalar of %T", v)))
}

func (x *Exec) closureID(c CL) string {
	for id, o := range x.P.closures {
		if o.Fn == c.Fn && len(o.Bind) == len(c.Bind) {
			same := true
			for i := range o.Bind {
				if fmt.Sprint(o.Bind[i]) != fmt.Sprint(c.Bind[i]) {
					same = false
				}
			}
			if same {
				x.reg.declare(id, "Int")
				return id
			}
		}
	}
	id := fmt.Sprintf("|clo:%s#%d|", sanitize(c.Fn.Name()), len(x.P.closures))
	x.P.closures[id] = c
	x.reg.declare(id, "Int")
	x.reg.axiom(id, "nn", "(not (= "+id+" 0))")
	return id
}

func (x *Exec) asSlice(v Val, t types.Type) SL {
	switch v := v.(type) {
	case SL:
		return v
	case TV:
		if v.T == "0" {
			return SL{"0", "0", "0", "0", t}
		}
	}
	panic(unsupported(fmt.Sprintf("asSlice of %T %v", v, v)))
}

func (x *Exec) zeroVal(t types.Type) Val {
	switch u := under(t).(type) {
	case *types.Struct:
		sv := SV{Ty: t}
		for i := 0; i < u.NumFields(); i++ {
			sv.F = append(sv.F, x.zeroVal(u.Field(i).Type()))
		}
		return sv
	case *types.Slice:
		return SL{"0", "0", "0", "0", t}
	case *types.Array:
		z := "0"
		if isBool(u.Elem()) {
			z = "false"
		}
		return AV{A: "((as const (Array Int " + sortOf(u.Elem()) + ")) " + z + ")", Ty: t}
	case *types.Tuple:
		var tu TU
		for i := 0; i < u.Len(); i++ {
			tu = append(tu, x.zeroVal(u.At(i).Type()))
		}
		return tu
	default:
		if isBool(t) {
			return TV{"false", t}
		}
		if isString(t) {
			x.useStr()
			return TV{"str_empty", t}
		}
		return TV{"0", t}
	}
}

func (x *Exec) constVal(c *ssa.Const) Val {
	t := c.Type()
	if c.Value == nil {
		return x.zeroVal(t)
	}
	switch c.Value.Kind() {
	case constant.Bool:
		if constant.BoolVal(c.Value) {
			return TV{"true", t}
		}
		return TV{"false", t}
	case constant.Int:
		s := c.Value.ExactString()
		if strings.HasPrefix(s, "-") {
			s = "(- " + s[1:] + ")"
		}
		return TV{s, t}
	case constant.String:
		return TV{x.strLit(constant.StringVal(c.Value)), t}
	}
	panic(unsupported("constant " + c.String()))
}

func (x *Exec) val(st *State, v ssa.Value) Val {
	switch v := v.(type) {
	case *ssa.Const:
		return x.constVal(v)
	case *ssa.Global:
		return TV{x.globalRef(v), v.Type()}
	case *ssa.Function:
		return CL{Fn: v, Ty: v.Type()}
	case *ssa.Builtin:
		panic(unsupported("builtin as value"))
	}
	for fr := st.fr; fr != nil; fr = fr.parent {
		if r, ok := fr.vals[v]; ok {
			return r
		}
		if v.Parent() == fr.fn {
			break
		}
	}
	panic(fmt.Sprintf("internal: no value for %s = %s in %s", v.Name(), v, st.fr.fn))
}

func (x *Exec) setVal(st *State, v ssa.Value, r Val) { st.fr.vals[v] = r }

// valEq: equality of two values of type t as an SMT Bool term.
func (x *Exec) valEq(a, b Val) string {
	switch a := a.(type) {
	case TV:
		switch b := b.(type) {
		case TV:
			return eq(a.T, b.T)
		case SL:
			if a.T == "0" {
				return eq(b.B, "0")
			}
		case CL:
			return eq(a.T, x.closureID(b))
		}
	case SL:
		switch b := b.(type) {
		case TV:
			if b.T == "0" {
				return eq(a.B, "0")
			}
		case SL:
			if b.B == "0" {
				return eq(a.B, "0")
			}
			if a.B == "0" {
				return eq(b.B, "0")
			}
			return and(eq(a.B, b.B), eq(a.O, b.O), eq(a.L, b.L), eq(a.C, b.C))
		}
	case SV:
		if b, ok := b.(SV); ok && len(a.F) == len(b.F) {
			var cs []string
			for i := range a.F {
				cs = append(cs, x.valEq(a.F[i], b.F[i]))
			}
			return and(cs...)
		}
	case AV:
		if b, ok := b.(AV); ok {
			n := under(a.Ty).(*types.Array).Len()
			if n <= 32 {
				var cs []string
				for i := int64(0); i < n; i++ {
					cs = append(cs, eq(sel(a.A, intLit(i)), sel(b.A, intLit(i))))
				}
				return and(cs...)
			}
			return eq(a.A, b.A)
		}
	case CL:
		if b, ok := b.(TV); ok {
			return eq(x.closureID(a), b.T)
		}
	case SQ:
		if b, ok := b.(SQ); ok {
			return x.seqEq(a, b)
		}
	}
	panic(unsupported(fmt.Sprintf("equality of %T and %T", a, b)))
}

func (x *Exec) valIte(c string, a, b Val) Val {
	if c == "true" {
		return a
	}
	if c == "false" {
		return b
	}
	switch a := a.(type) {
	case TV:
		return TV{ite(c, a.T, x.scalar(b)), a.Ty}
	case SL:
		bb := x.asSlice(b, a.Ty)
		return SL{ite(c, a.B, bb.B), ite(c, a.O, bb.O), ite(c, a.L, bb.L), ite(c, a.C, bb.C), a.Ty}
	case SV:
		bs := b.(SV)
		r := SV{Ty: a.Ty}
		for i := range a.F {
			r.F = append(r.F, x.valIte(c, a.F[i], bs.F[i]))
		}
		return r
	case AV:
		return AV{ite(c, a.A, b.(AV).A), a.Ty}
	case SQ:
		bq := b.(SQ)
		return SQ{ite(c, a.A, bq.A), ite(c, a.O, bq.O), ite(c, a.L, bq.L), a.Elem}
	}
	panic(unsupported(fmt.Sprintf("ite of %T", a)))
}

// ---------- entry point ----------

// Run verifies fn against spec and returns the obligations.
func (x *Exec) Run() {
	defer func() {
		if r := recover(); r != nil {
			if u, ok := r.(unsupportedErr); ok {
				x.fail = u
				return
			}
			x.fail = fmt.Errorf("internal error: %v", r)
			panic(r)
		}
	}()
	fn := x.top
	x.reg.declare("|alloc@0|", "Int")
	st := &State{alloc: "|alloc@0|", H: Heap{M: map[string]string{}}, iters: map[ssa.Value]*iterState{}}
	st.assume("(>= |alloc@0| 0)")
	x.installAxioms()
	fr := &Frame{fn: fn, vals: map[ssa.Value]Val{}, names: map[string]Val{}, block: fn.Blocks[0], kind: fkTop, variant: map[int]string{}, loopOld: map[int]Heap{}, locals: map[*ssa.Alloc]Val{}}
	st.fr = fr
	x.entry = map[string]Val{}
	for _, p := range fn.Params {
		v := x.freshVal(st, p.Type(), p.Name())
		fr.vals[p] = v
		fr.names[p.Name()] = v
		x.entry[p.Name()] = v
		if isContextType(p.Type()) {
			// package context: "Do not pass a nil Context, even if a function permits it" -- a context.Context
			// parameter is taken to be non-nil at entry (global assumption, reported with the evidence)
			st.assume(not(eq(v.(TV).T, "0")))
			x.warn("context.Context parameters are assumed non-nil at function entry (package context: do not pass a nil Context)")
		}
	}
	if fn.Synthetic == "package initializer" {
		// verify the first (and only effective) execution: the init guard is still false
		if g, ok := fn.Pkg.Members["init$guard"].(*ssa.Global); ok {
			x.storePtr(st, x.globalRef(g), types.Typ[types.Bool], TV{"false", types.Typ[types.Bool]})
		}
	}
	// preconditions
	env := x.topEnv(st)
	for _, c := range x.spec.Requires {
		t := x.evalBool(env, c.E)
		st.assume(t)
	}
	x.obsTerms = map[string]string{}
	for name, src := range x.Observe {
		ts, err := lex(src)
		if err != nil {
			panic(specErr{"observable " + name + ": " + err.Error()})
		}
		ps := &parser{ts: ts}
		v := env.eval(ps.parseExpr())
		x.obsTerms[name] = x.scalar(v)
	}
	x.coverPC = append(x.coverPC, append([]string(nil), st.pc...))
	x.work = append(x.work, st)
	for len(x.work) > 0 && x.fail == nil {
		s := x.work[len(x.work)-1]
		x.work = x.work[:len(x.work)-1]
		x.runPath(s)
	}
}

func (x *Exec) runPath(st *State) {
	x.paths++
	if x.paths > x.MaxPaths {
		panic(unsupported(fmt.Sprintf("more than %d paths", x.MaxPaths)))
	}
	for !st.dead {
		fr := st.fr
		if fr.idx >= len(fr.block.Instrs) {
			panic("internal: ran off block")
		}
		x.step(st, fr.block.Instrs[fr.idx])
	}
}

func (x *Exec) fork(st *State, cond string) (thenSt, elseSt *State) {
	if cond == "true" {
		return st, nil
	}
	if cond == "false" {
		return nil, st
	}
	switch st.decided(cond) {
	case 1:
		return st, nil
	case -1:
		return nil, st
	}
	e := st.clone()
	st.assume(cond)
	e.assume(not(cond))
	return st, e
}

func fnShort(fn *ssa.Function) string {
	if fn == nil {
		return "?"
	}
	s := fn.Name()
	if recv := fn.Signature.Recv(); recv != nil {
		t := recv.Type()
		star := ""
		if p, ok := t.(*types.Pointer); ok {
			t = p.Elem()
			star = "*"
		}
		if n, ok := t.(*types.Named); ok {
			s = "(" + star + n.Obj().Name() + ")." + fn.Name()
		}
	} else if fn.Parent() != nil {
		s = fnShort(fn.Parent()) + "$" + strings.TrimPrefix(fn.Name(), fn.Parent().Name()+"$")
	}
	return s
}

// safety obligation name: kind plus the source text of the expression that can fail,
// so that names survive unrelated edits (no line numbers, no SSA temporaries).
func (x *Exec) safeName(fn *ssa.Function, ins ssa.Instruction, kind string) string {
	base := "safety:" + kind + ":" + x.P.srcOf(ins, kind)
	if fn != x.top {
		base += "@" + fnShort(fn)
	}
	return base
}

func (x *Exec) safety(st *State, ins ssa.Instruction, kind, goal string) {
	if goal == "true" {
		return
	}
	x.oblige(st, x.safeName(st.fr.fn, ins, kind), "safety", kind, goal)
	st.assume(goal) // continue under the assumption that the operation did not panic
}

// ---------- instruction semantics ----------

func (x *Exec) step(st *State, ins ssa.Instruction) {
	fr := st.fr
	next := func() { fr.idx++ }
	switch ins := ins.(type) {
	case *ssa.DebugRef:
		if id, ok := ins.Expr.(*ast.Ident); ok && id.Name != "_" {
			v := x.val(st, ins.X)
			if ins.IsAddr {
				if tv, ok := v.(TV); ok && isPointer(tv.Ty) {
					fr.names[id.Name] = nameAddr{tv.T, deref(tv.Ty)}
				} else if ad, ok := v.(AD); ok {
					fr.names[id.Name] = ad
				} else if lr, ok := v.(localRef); ok {
					fr.names[id.Name] = lr
				}
			} else {
				// a variable that lives in a cell (or a register local) keeps its address binding: a read of it
				// must not replace the name by a snapshot of the value it had at that read
				switch fr.names[id.Name].(type) {
				case nameAddr, AD, localRef:
				default:
					fr.names[id.Name] = v
				}
			}
		}
		next()
	case *ssa.Alloc:
		t := deref(ins.Type())
		if !isArray(t) && !x.escapes(ins) {
			// a local whose address never leaves the function: kept as a (mutable) register value, no heap traffic
			fr.locals[ins] = x.zeroVal(t)
			x.setVal(st, ins, localRef{a: ins})
			if ins.Comment != "" && !strings.Contains(ins.Comment, " ") && ins.Comment != "varargs" && ins.Comment != "complit" && ins.Comment != "new" {
				fr.names[ins.Comment] = localRef{a: ins}
			}
			next()
			return
		}
		r := x.newObj(st, "new."+shorten(ins.Comment, 12))
		if isArray(t) {
			at := under(t).(*types.Array)
			if isScalar(at.Elem()) {
				mk := x.memKey(at.Elem())
				x.hsetMem(st, mk, r, "", x.zeroVal(t).(AV).A)
			} else {
				x.assumeZeroElems(st, at.Elem(), r)
			}
		} else {
			x.storePtr(st, r, t, x.zeroVal(t))
			x.initGhost(st, t, r)
		}
		x.setVal(st, ins, TV{r, ins.Type()})
		if ins.Comment != "" && !strings.Contains(ins.Comment, " ") && ins.Comment != "varargs" && ins.Comment != "complit" && ins.Comment != "new" {
			fr.names[ins.Comment] = nameAddr{r, t}
		}
		next()
	case *ssa.FieldAddr:
		if lr, ok := x.val(st, ins.X).(localRef); ok {
			x.setVal(st, ins, localRef{a: lr.a, path: append(append([]int(nil), lr.path...), ins.Field)})
			next()
			return
		}
		p := x.val(st, ins.X).(TV)
		x.safety(st, ins, "nil", not(eq(p.T, "0")))
		structT := deref(ins.X.Type())
		fld := under(structT).(*types.Struct).Field(ins.Field)
		if isStruct(fld.Type()) || isArray(fld.Type()) {
			x.setVal(st, ins, TV{x.subObj(structT, fld.Name(), p.T), ins.Type()})
		} else {
			x.setVal(st, ins, AD{Kind: "field", Key: typeKey(structT) + "%" + fld.Name(), Obj: p.T, Ty: ins.Type(), structT: structT, fld: fld})
		}
		next()
	case *ssa.Field:
		sv := x.val(st, ins.X).(SV)
		x.setVal(st, ins, sv.F[ins.Field])
		next()
	case *ssa.IndexAddr:
		x.stepIndexAddr(st, ins)
		next()
	case *ssa.Index:
		i := x.scalar(x.val(st, ins.Index))
		switch c := x.val(st, ins.X).(type) {
		case AV:
			n := under(c.Ty).(*types.Array).Len()
			x.safety(st, ins, "index", and(le("0", i), lt(i, intLit(n))))
			x.setVal(st, ins, TV{sel(c.A, i), ins.Type()})
		case TV: // string
			x.useStr()
			x.safety(st, ins, "index", and(le("0", i), lt(i, "(strlen "+c.T+")")))
			x.setVal(st, ins, TV{"(strat " + c.T + " " + i + ")", ins.Type()})
		default:
			panic(unsupported("Index on " + fmt.Sprintf("%T", c)))
		}
		next()
	case *ssa.UnOp:
		x.stepUnOp(st, ins)
		next()
	case *ssa.Store:
		v := x.val(st, ins.Val)
		x.storeTo(st, ins, x.val(st, ins.Addr), deref(ins.Addr.Type()), v)
		next()
	case *ssa.BinOp:
		x.setVal(st, ins, x.binop(st, ins, ins.Op, x.val(st, ins.X), x.val(st, ins.Y), ins.X.Type(), ins.Type()))
		next()
	case *ssa.Phi:
		next() // handled on block entry
	case *ssa.Extract:
		x.setVal(st, ins, x.val(st, ins.Tuple).(TU)[ins.Index])
		next()
	case *ssa.ChangeType:
		x.setVal(st, ins, retype(x.val(st, ins.X), ins.Type()))
		next()
	case *ssa.ChangeInterface:
		x.setVal(st, ins, retype(x.val(st, ins.X), ins.Type()))
		next()
	case *ssa.Convert:
		x.setVal(st, ins, x.convert(st, ins, x.val(st, ins.X), ins.X.Type(), ins.Type()))
		next()
	case *ssa.MakeInterface:
		x.setVal(st, ins, x.makeIface(st, x.val(st, ins.X), ins.X.Type(), ins.Type()))
		x.refineAt(st, ins)
		next()
	case *ssa.TypeAssert:
		x.stepTypeAssert(st, ins)
		next()
	case *ssa.MakeClosure:
		var bind []Val
		for _, b := range ins.Bindings {
			bind = append(bind, x.val(st, b))
		}
		x.setVal(st, ins, CL{Fn: ins.Fn.(*ssa.Function), Bind: bind, Ty: ins.Type()})
		next()
	case *ssa.MakeSlice:
		l := x.scalar(x.val(st, ins.Len))
		c := x.scalar(x.val(st, ins.Cap))
		x.safety(st, ins, "makeslice", and(le("0", l), le(l, c)))
		elem := under(ins.Type()).(*types.Slice).Elem()
		b := x.newObj(st, "make")
		x.zeroBacking(st, elem, b)
		sl := SL{b, "0", l, c, ins.Type()}
		st.assume(le(c, "4611686018427387904"))
		x.setVal(st, ins, sl)
		next()
	case *ssa.MakeMap:
		m := x.newObj(st, "makemap")
		d, _, n := x.mapKeys(ins.Type())
		mt := under(ins.Type()).(*types.Map)
		x.hset(st, d, store(x.hget(st.H, d), m, "((as const (Array "+sortOf(mt.Key())+" Bool)) false)"))
		x.hset(st, n, store(x.hget(st.H, n), m, "0"))
		x.setVal(st, ins, TV{m, ins.Type()})
		next()
	case *ssa.Lookup:
		x.stepLookup(st, ins)
		next()
	case *ssa.MapUpdate:
		x.stepMapUpdate(st, ins)
		next()
	case *ssa.Slice:
		x.stepSlice(st, ins)
		next()
	case *ssa.SliceToArrayPointer:
		sl := x.val(st, ins.X).(SL)
		at := under(deref(ins.Type())).(*types.Array)
		x.safety(st, ins, "slice2array", le(intLit(at.Len()), sl.L))
		if sl.O == "0" {
			x.setVal(st, ins, TV{sl.B, ins.Type()})
		} else {
			// pointer into the middle of a backing: represent as a view object whose memory mirrors the range
			x.setVal(st, ins, viewPtr{sl: sl, ty: ins.Type()})
		}
		next()
	case *ssa.Range:
		x.stepRange(st, ins)
		next()
	case *ssa.Next:
		x.stepNext(st, ins)
	case *ssa.Call:
		x.stepCall(st, ins)
	case *ssa.Defer:
		d := deferred{call: ins.Call, site: ins}
		if !ins.Call.IsInvoke() {
			if _, isB := ins.Call.Value.(*ssa.Builtin); !isB {
				d.fn = x.val(st, ins.Call.Value)
			}
		} else {
			d.fn = x.val(st, ins.Call.Value)
		}
		for _, a := range ins.Call.Args {
			d.args = append(d.args, x.val(st, a))
		}
		fr.defers = append(fr.defers, d)
		next()
	case *ssa.RunDefers:
		if len(fr.defers) == 0 {
			next()
			return
		}
		d := fr.defers[len(fr.defers)-1]
		fr.defers = fr.defers[:len(fr.defers)-1]
		x.invoke(st, d.site, &d.call, d.fn, d.args, fkDefer)
	case *ssa.Go:
		x.warn("goroutine spawn in %s ignored (body verified separately if under contract)", fnShort(fr.fn))
		next()
	case *ssa.If:
		c := x.val(st, ins.Cond).(TV).T
		b := fr.block
		t, e := x.fork(st, c)
		if e != nil {
			if t != nil {
				x.work = append(x.work, e)
				x.enter(e, b, b.Succs[1])
			} else {
				x.enter(e, b, b.Succs[1])
				return
			}
		}
		if t != nil {
			x.enter(t, b, b.Succs[0])
		}
	case *ssa.Jump:
		x.enter(st, fr.block, fr.block.Succs[0])
	case *ssa.Return:
		var res []Val
		for _, r := range ins.Results {
			res = append(res, x.val(st, r))
		}
		x.doReturn(st, res)
	case *ssa.Panic:
		x.oblige(st, x.safeName(fr.fn, ins, "panic"), "safety", "explicit panic", "false")
		st.dead = true
	default:
		panic(unsupported(fmt.Sprintf("instruction %T (%s) in %s", ins, ins, fnShort(fr.fn))))
	}
}

// initGhost gives the ghost fields of a freshly allocated object their default values
// (empty sequence / empty set / nil / 0), recursively for embedded structs.
func (x *Exec) initGhost(st *State, t types.Type, obj string) {
	u, ok := under(t).(*types.Struct)
	if !ok {
		return
	}
	if n := originNamed(t); n != nil {
		for _, g := range x.P.ghosts {
			if x.P.ghostField(t, g.Name) != g {
				continue
			}
			tctx := x.P.typeCtxForGhost(g, t, nil)
			gt := x.P.resolveTypeExpr(g.Ty, tctx)
			base := "G%" + typeKey(t) + "%" + g.Name
			x.ghostKeys(t, g, tctx)
			switch gt.Kind {
			case "seq":
				x.hset(st, base+"#l", store(x.hget(st.H, base+"#l"), obj, "0"))
			case "set":
				x.hset(st, base, store(x.hget(st.H, base), obj, "((as const (Array "+sortOf(gt.Elem.Go)+" Bool)) false)"))
			default:
				if _, isMap := under(gt.Go).(*types.Map); isMap {
					continue
				}
				z := "0"
				if isBool(gt.Go) {
					z = "false"
				}
				x.hset(st, base, store(x.hget(st.H, base), obj, z))
			}
		}
	}
	for i := 0; i < u.NumFields(); i++ {
		f := u.Field(i)
		if isStruct(f.Type()) {
			x.initGhost(st, f.Type(), x.subObj(t, f.Name(), obj))
		}
	}
}

// localRef designates (a field path inside) a non-escaping local variable.
type localRef struct {
	a    *ssa.Alloc
	path []int
}

func frameOf(fr *Frame, a *ssa.Alloc) *Frame {
	for f := fr; f != nil; f = f.parent {
		if _, ok := f.locals[a]; ok {
			return f
		}
	}
	panic("internal: local not found " + a.Name())
}

func (x *Exec) localGet(fr *Frame, r localRef) Val {
	v := frameOf(fr, r.a).locals[r.a]
	for _, i := range r.path {
		v = v.(SV).F[i]
	}
	return v
}

func (x *Exec) localSet(fr *Frame, r localRef, nv Val) {
	f := frameOf(fr, r.a)
	var upd func(v Val, path []int) Val
	upd = func(v Val, path []int) Val {
		if len(path) == 0 {
			return nv
		}
		sv := v.(SV)
		nf := append([]Val(nil), sv.F...)
		nf[path[0]] = upd(sv.F[path[0]], path[1:])
		return SV{sv.Ty, nf}
	}
	f.locals[r.a] = upd(f.locals[r.a], r.path)
}

// escapes: may the address of this local be observed by anything but direct field loads and stores?
func (x *Exec) escapes(a *ssa.Alloc) bool {
	if e, ok := x.escMemo[a]; ok {
		return e
	}
	var addrOnly func(v ssa.Value) bool
	addrOnly = func(v ssa.Value) bool {
		refs := v.Referrers()
		if refs == nil {
			return false
		}
		for _, r := range *refs {
			switch r := r.(type) {
			case *ssa.DebugRef:
			case *ssa.UnOp:
				if r.Op != token.MUL {
					return false
				}
			case *ssa.Store:
				if r.Val == v {
					return false
				}
			case *ssa.FieldAddr:
				if !isStruct(deref(v.Type())) || !addrOnly(r) {
					return false
				}
			default:
				return false
			}
		}
		return true
	}
	t := deref(a.Type())
	e := !(isStruct(t) || isScalar(t) || isSlice(t)) || !addrOnly(a)
	if x.escMemo == nil {
		x.escMemo = map[*ssa.Alloc]bool{}
	}
	x.escMemo[a] = e
	return e
}

// viewPtr is a *[N]T obtained from a slice with non-zero offset.
type viewPtr struct {
	sl SL
	ty types.Type
}

func retype(v Val, t types.Type) Val {
	switch v := v.(type) {
	case TV:
		return TV{v.T, t}
	case SV:
		return SV{t, v.F}
	case SL:
		return SL{v.B, v.O, v.L, v.C, t}
	case AV:
		return AV{v.A, t}
	case CL:
		return CL{v.Fn, v.Bind, t}
	}
	return v
}

func (x *Exec) stepIndexAddr(st *State, ins *ssa.IndexAddr) {
	i := x.scalar(x.val(st, ins.Index))
	switch c := x.val(st, ins.X).(type) {
	case SL:
		x.safety(st, ins, "index", and(le("0", i), lt(i, c.L)))
		elem := under(c.Ty).(*types.Slice).Elem()
		abs := add(c.O, i)
		if isStruct(elem) {
			x.setVal(st, ins, TV{x.elemObj(elem, c.B, abs), ins.Type()})
		} else {
			x.setVal(st, ins, AD{Kind: "elem", Obj: c.B, Idx: abs, Ty: ins.Type(), elemT: elem})
		}
	case TV: // pointer to array
		at := under(deref(c.Ty)).(*types.Array)
		x.safety(st, ins, "nil", not(eq(c.T, "0")))
		x.safety(st, ins, "index", and(le("0", i), lt(i, intLit(at.Len()))))
		if isStruct(at.Elem()) {
			x.setVal(st, ins, TV{x.elemObj(at.Elem(), c.T, i), ins.Type()})
		} else {
			x.setVal(st, ins, AD{Kind: "elem", Obj: c.T, Idx: i, Ty: ins.Type(), elemT: at.Elem()})
		}
	default:
		panic(unsupported(fmt.Sprintf("IndexAddr on %T", c)))
	}
}

func (x *Exec) loadFrom(st *State, h Heap, addr Val, t types.Type) Val {
	switch a := addr.(type) {
	case localRef:
		return x.localGet(st.fr, a)
	case AD:
		if a.Kind == "field" {
			return x.loadField(st, h, a.structT, a.fld, a.Obj)
		}
		return x.loadElem(st, h, a.elemT, a.Obj, a.Idx)
	case TV:
		return x.loadPtr(st, h, a.T, t)
	case viewPtr:
		at := under(t).(*types.Array)
		// array value = shifted view of backing memory
		mk := x.memKey(at.Elem())
		n := x.reg.fresh("view")
		x.reg.declare(n, "(Array Int "+sortOf(at.Elem())+")")
		src := sel(x.hget(h, mk), a.sl.B)
		var cs []string
		for k := int64(0); k < at.Len(); k++ {
			cs = append(cs, eq(sel(n, intLit(k)), sel(src, add(a.sl.O, intLit(k)))))
		}
		if st != nil {
			st.assume(and(cs...))
		}
		return AV{n, t}
	case nameAddr:
		return x.loadPtr(st, h, a.ref, a.ty)
	}
	panic(unsupported(fmt.Sprintf("load through %T", addr)))
}

func (x *Exec) storeTo(st *State, ins ssa.Instruction, addr Val, t types.Type, v Val) {
	switch a := addr.(type) {
	case localRef:
		x.localSet(st.fr, a, v)
	case AD:
		if a.Kind == "field" {
			x.storeField(st, a.structT, a.fld, a.Obj, v)
		} else {
			x.storeElem(st, a.elemT, a.Obj, a.Idx, v)
		}
	case TV:
		if ins != nil {
			x.safety(st, ins, "nil", not(eq(a.T, "0")))
		}
		x.storePtr(st, a.T, t, v)
	case nameAddr:
		x.storePtr(st, a.ref, a.ty, v)
	default:
		panic(unsupported(fmt.Sprintf("store through %T", addr)))
	}
}

func (x *Exec) stepUnOp(st *State, ins *ssa.UnOp) {
	v := x.val(st, ins.X)
	switch ins.Op {
	case token.MUL:
		if g, ok := ins.X.(*ssa.Global); ok {
			if isInterface(g.Type().(*types.Pointer).Elem()) && types.Identical(g.Type().(*types.Pointer).Elem(), types.Universe.Lookup("error").Type()) && x.P.isPlainSentinel(g) {
				x.setVal(st, ins, TV{x.sentinel(st, g), ins.Type()})
				return
			}
		}
		if tv, ok := v.(TV); ok {
			x.safety(st, ins, "nil", not(eq(tv.T, "0")))
		}
		x.setVal(st, ins, x.loadFrom(st, st.H, v, ins.Type()))
	case token.NOT:
		x.setVal(st, ins, TV{not(v.(TV).T), ins.Type()})
	case token.SUB:
		x.setVal(st, ins, TV{"(- " + v.(TV).T + ")", ins.Type()})
	case token.XOR:
		x.reg.declare("bitnot", "(Int) Int")
		x.setVal(st, ins, TV{"(bitnot " + v.(TV).T + ")", ins.Type()})
	default:
		panic(unsupported("unary " + ins.Op.String()))
	}
}

func (x *Exec) binop(st *State, ins ssa.Instruction, op token.Token, a, b Val, opT, resT types.Type) Val {
	switch op {
	case token.EQL:
		return TV{x.valEq(a, b), resT}
	case token.NEQ:
		return TV{not(x.valEq(a, b)), resT}
	}
	at, aok := a.(TV)
	bt, bok := b.(TV)
	if !aok || !bok {
		panic(unsupported(fmt.Sprintf("binop %s on %T,%T", op, a, b)))
	}
	if isString(opT) {
		switch op {
		case token.ADD:
			return TV{x.strcat(at.T, bt.T), resT}
		case token.LSS, token.LEQ, token.GTR, token.GEQ:
			x.reg.declare("strlt", "(Int Int) Bool")
			switch op {
			case token.LSS:
				return TV{"(strlt " + at.T + " " + bt.T + ")", resT}
			case token.GTR:
				return TV{"(strlt " + bt.T + " " + at.T + ")", resT}
			case token.LEQ:
				return TV{not("(strlt " + bt.T + " " + at.T + ")"), resT}
			default:
				return TV{not("(strlt " + at.T + " " + bt.T + ")"), resT}
			}
		}
	}
	if isBool(opT) {
		switch op {
		case token.AND, token.LAND:
			return TV{and(at.T, bt.T), resT}
		case token.OR, token.LOR:
			return TV{or(at.T, bt.T), resT}
		}
	}
	arith := func(sym string) Val {
		r := "(" + sym + " " + at.T + " " + bt.T + ")"
		if lo, hi, ok := intRange(resT); ok && ins != nil {
			x.safety(st, ins, "overflow", and(le(lo, r), le(r, hi)))
		}
		return TV{r, resT}
	}
	switch op {
	case token.ADD:
		if at.T == "0" {
			return TV{bt.T, resT}
		}
		if bt.T == "0" {
			return TV{at.T, resT}
		}
		return arith("+")
	case token.SUB:
		if bt.T == "0" {
			return TV{at.T, resT}
		}
		return arith("-")
	case token.MUL:
		return arith("*")
	case token.QUO, token.REM:
		if ins != nil {
			x.safety(st, ins, "divzero", not(eq(bt.T, "0")))
		}
		var q string
		if isIntLiteral(bt.T) && bt.T != "0" {
			q = ite("(>= "+at.T+" 0)", "(div "+at.T+" "+bt.T+")", "(- (div (- "+at.T+") "+bt.T+"))")
			if isUnsigned(opT) {
				q = "(div " + at.T + " " + bt.T + ")"
			}
		} else {
			absq := "(div (abs " + at.T + ") (abs " + bt.T + "))"
			q = ite("(= (>= "+at.T+" 0) (>= "+bt.T+" 0))", absq, "(- "+absq+")")
		}
		if op == token.QUO {
			return TV{q, resT}
		}
		return TV{"(- " + at.T + " (* " + bt.T + " " + q + "))", resT}
	case token.LSS:
		return TV{lt(at.T, bt.T), resT}
	case token.LEQ:
		return TV{le(at.T, bt.T), resT}
	case token.GTR:
		return TV{lt(bt.T, at.T), resT}
	case token.GEQ:
		return TV{le(bt.T, at.T), resT}
	case token.AND, token.OR, token.XOR, token.SHL, token.SHR, token.AND_NOT:
		f := map[token.Token]string{token.AND: "bitand", token.OR: "bitor", token.XOR: "bitxor", token.SHL: "bitshl", token.SHR: "bitshr", token.AND_NOT: "bitandnot"}[op]
		x.reg.declare(f, "(Int Int) Int")
		r := TV{"(" + f + " " + at.T + " " + bt.T + ")", resT}
		st.assume(rangeFact(resT, r.T))
		return r
	}
	panic(unsupported("binop " + op.String()))
}

func (x *Exec) convert(st *State, ins ssa.Instruction, v Val, from, to types.Type) Val {
	switch {
	case isInteger(from) && isInteger(to):
		tv := v.(TV)
		flo, fhi, _ := intRange(from)
		tlo, thi, _ := intRange(to)
		if flo != tlo || fhi != thi {
			// value-preserving unless the target range is narrower: flagged, since silent truncation
			// or sign change is never intended in the code under contract
			x.safety(st, ins, "convert", and(le(tlo, tv.T), le(tv.T, thi)))
		}
		return TV{tv.T, to}
	case isString(from) && isSlice(to): // []byte(s)
		x.useStr()
		s := v.(TV).T
		elem := under(to).(*types.Slice).Elem()
		b := x.newObj(st, "bytes")
		mk := x.memKey(elem)
		arr := x.reg.fresh("bytesOf")
		x.reg.declare(arr, "(Array Int Int)")
		st.assume(fmt.Sprintf("(forall ((j Int)) (! (=> (and (<= 0 j) (< j (strlen %s))) (= (select %s j) (strat %s j))) :pattern ((select %s j))))", s, arr, s, arr))
		x.hsetMem(st, mk, b, "", arr)
		return SL{b, "0", "(strlen " + s + ")", "(strlen " + s + ")", to}
	case isSlice(from) && isString(to): // string(bytes)
		x.useStr()
		sl := x.asSlice(v, from)
		elem := under(from).(*types.Slice).Elem()
		s := x.freshInt("strOf")
		mem := sel(x.hget(st.H, x.memKey(elem)), sl.B)
		st.assume(eq("(strlen "+s+")", sl.L))
		st.assume(fmt.Sprintf("(forall ((j Int)) (! (=> (and (<= 0 j) (< j %s)) (= (strat %s j) (select %s (+ %s j)))) :pattern ((strat %s j))))", sl.L, s, mem, sl.O, s))
		x.P.strOfBytes = append(x.P.strOfBytes, s)
		return TV{s, to}
	case isString(from) && isString(to), isPointer(from) && isPointer(to):
		return retype(v, to)
	case isSlice(from) && isSlice(to):
		return retype(v, to)
	}
	if isFloat(from) || isFloat(to) {
		panic(unsupported("floating point conversion"))
	}
	panic(unsupported(fmt.Sprintf("convert %v -> %v", from, to)))
}

func (x *Exec) makeIface(st *State, v Val, from, to types.Type) Val {
	x.useIface()
	tid := x.typeID(from)
	switch u := v.(type) {
	case TV:
		return TV{"(mkiface " + tid + " " + x.boxScalar(u, from) + ")", to}
	case SV:
		if len(u.F) == 0 {
			return TV{"(mkiface " + tid + " 0)", to} // zero-size struct: interface equality is by value
		}
		r := x.newObj(st, "box")
		x.storeStruct(st, from, r, u)
		return TV{"(mkiface " + tid + " " + r + ")", to}
	case SL:
		r := x.newObj(st, "boxs")
		x.storePtr(st, r, from, u)
		return TV{"(mkiface " + tid + " " + r + ")", to}
	case CL:
		return TV{"(mkiface " + tid + " " + x.closureID(u) + ")", to}
	case AV:
		r := x.newObj(st, "boxa")
		x.storePtr(st, r, from, u)
		return TV{"(mkiface " + tid + " " + r + ")", to}
	}
	panic(unsupported(fmt.Sprintf("MakeInterface of %T", v)))
}

func (x *Exec) boxScalar(v TV, t types.Type) string {
	if isBool(t) {
		return ite(v.T, "1", "0")
	}
	return v.T
}

func (x *Exec) unbox(st *State, iv string, t types.Type) Val {
	x.useIface()
	p := "(ival " + iv + ")"
	switch {
	case isStruct(t):
		return x.loadStruct(st, st.H, t, p)
	case isSlice(t), isArray(t):
		return x.loadPtr(st, st.H, p, t)
	case isBool(t):
		return TV{eq(p, "1"), t}
	default:
		tv := TV{p, t}
		st.assume(rangeFact(t, p))
		return tv
	}
}

func (x *Exec) stepTypeAssert(st *State, ins *ssa.TypeAssert) {
	x.useIface()
	iv := x.val(st, ins.X).(TV)
	var ok string
	var val Val
	if isInterface(ins.AssertedType) {
		x.reg.declare("implements", "(Int Int) Bool")
		ok = and(not(eq(iv.T, "0")), "(implements (itype "+iv.T+") "+x.typeID(ins.AssertedType)+")")
		if types.Identical(under(ins.AssertedType), under(ins.X.Type())) || types.AssignableTo(ins.X.Type(), ins.AssertedType) {
			ok = not(eq(iv.T, "0"))
		}
		val = TV{iv.T, ins.AssertedType}
	} else {
		ok = and(not(eq(iv.T, "0")), eq("(itype "+iv.T+")", x.typeID(ins.AssertedType)))
		val = x.unbox(st, iv.T, ins.AssertedType)
	}
	if ins.CommaOk {
		x.setVal(st, ins, TU{x.valIte(ok, val, x.zeroVal(ins.AssertedType)), TV{ok, types.Typ[types.Bool]}})
	} else {
		x.safety(st, ins, "typeassert", ok)
		x.setVal(st, ins, val)
	}
}

func (x *Exec) stepSlice(st *State, ins *ssa.Slice) {
	var base SL
	switch c := x.val(st, ins.X).(type) {
	case SL:
		base = c
	case TV:
		if isString(c.Ty) {
			panic(unsupported("substring"))
		}
		at := under(deref(c.Ty)).(*types.Array)
		x.safety(st, ins, "nil", not(eq(c.T, "0")))
		n := intLit(at.Len())
		base = SL{c.T, "0", n, n, types.NewSlice(at.Elem())}
	default:
		panic(unsupported(fmt.Sprintf("Slice of %T", c)))
	}
	lo, hi, mx := "0", base.L, base.C
	if ins.Low != nil {
		lo = x.scalar(x.val(st, ins.Low))
	}
	if ins.High != nil {
		hi = x.scalar(x.val(st, ins.High))
	}
	if ins.Max != nil {
		mx = x.scalar(x.val(st, ins.Max))
		x.safety(st, ins, "slice", and(le("0", lo), le(lo, hi), le(hi, mx), le(mx, base.C)))
	} else {
		x.safety(st, ins, "slice", and(le("0", lo), le(lo, hi), le(hi, base.C)))
	}
	x.setVal(st, ins, SL{base.B, add(base.O, lo), sub(hi, lo), sub(mx, lo), ins.Type()})
}

// zeroBacking: a freshly made backing store holds zero values.
func (x *Exec) zeroBacking(st *State, elem types.Type, b string) {
	switch under(elem).(type) {
	case *types.Struct:
		x.assumeZeroElems(st, elem, b)
	case *types.Slice:
		base := "M%" + typeKey(elem)
		for _, p := range []string{"#b", "#o", "#l", "#c"} {
			x.regKey(base+p, "(Array Int (Array Int Int))")
			x.hsetMem(st, base+p, b, "", "((as const (Array Int Int)) 0)")
		}
	default:
		mk := x.memKey(elem)
		z := x.scalar(x.zeroVal(elem))
		x.hsetMem(st, mk, b, "", "((as const (Array Int "+sortOf(elem)+")) "+z+")")
	}
}

// assumeZeroElems: all struct elements of the fresh backing b are zero-valued.
func (x *Exec) assumeZeroElems(st *State, elem types.Type, b string) {
	obj := x.elemObj(elem, b, "zi")
	var facts []string
	var walk func(t types.Type, o string)
	walk = func(t types.Type, o string) {
		u := under(t).(*types.Struct)
		for i := 0; i < u.NumFields(); i++ {
			f := u.Field(i)
			switch under(f.Type()).(type) {
			case *types.Struct:
				walk(f.Type(), x.subObj(t, f.Name(), o))
			case *types.Slice:
				k := fieldKey(t, f.Name())
				for _, p := range []string{"#b", "#o", "#l", "#c"} {
					x.regKey(k+p, "(Array Int Int)")
					facts = append(facts, eq(sel(x.hget(st.H, k+p), o), "0"))
				}
			case *types.Array:
				// left unconstrained (sound: fewer facts)
			default:
				if isFloat(f.Type()) {
					continue
				}
				k := fieldKey(t, f.Name())
				x.regKey(k, arrSort(f.Type()))
				facts = append(facts, eq(sel(x.hget(st.H, k), o), x.scalar(x.zeroVal(f.Type()))))
			}
		}
	}
	walk(elem, obj)
	if len(facts) > 0 {
		st.assume(fmt.Sprintf("(forall ((zi Int)) (! %s :pattern (%s)))", and(facts...), obj))
	}
}

// ---------- maps ----------

func (x *Exec) mapLoad(st *State, h Heap, mt types.Type, m, k string) (Val, string) {
	mm := under(mt).(*types.Map)
	d, v, _ := x.mapKeys(mt)
	ok := sel(sel(x.hget(h, d), m), k)
	var val Val
	if isScalar(mm.Elem()) {
		if isPointer(mm.Elem()) || isMap(mm.Elem()) {
			x.markRef(v)
		}
		tv := TV{sel(sel(x.hget(h, v), m), k), mm.Elem()}
		if st != nil {
			st.assume(rangeFact(mm.Elem(), tv.T))
			if isPointer(mm.Elem()) || isMap(mm.Elem()) {
				st.assume(x.oldRef(st, tv.T))
			}
		}
		val = tv
	} else if isStruct(mm.Elem()) {
		val = x.loadStruct(st, h, mm.Elem(), x.melemObj(mt, m, k))
	} else {
		panic(unsupported("map value type " + mm.Elem().String()))
	}
	return val, ok
}

func (x *Exec) stepLookup(st *State, ins *ssa.Lookup) {
	if isString(ins.X.Type()) {
		panic(unsupported("string lookup"))
	}
	m := x.val(st, ins.X).(TV)
	k := x.scalar(x.val(st, ins.Index))
	mt := ins.X.Type()
	d, _, _ := x.mapKeys(mt)
	st.assume(implies(eq(m.T, "0"), not(sel(sel(x.hget(st.H, d), m.T), k))))
	val, ok := x.mapLoad(st, st.H, mt, m.T, k)
	zero := x.zeroVal(under(mt).(*types.Map).Elem())
	res := x.valIte(ok, val, zero)
	if ins.CommaOk {
		x.setVal(st, ins, TU{res, TV{ok, types.Typ[types.Bool]}})
	} else {
		x.setVal(st, ins, res)
	}
}

func (x *Exec) mapStore(st *State, mt types.Type, m, k string, v Val) {
	mm := under(mt).(*types.Map)
	d, vk, n := x.mapKeys(mt)
	dom := x.hget(st.H, d)
	had := sel(sel(dom, m), k)
	sz := x.hget(st.H, n)
	x.hset(st, n, store(sz, m, ite(had, sel(sz, m), add(sel(sz, m), "1"))))
	x.hset(st, d, store(dom, m, store(sel(dom, m), k, "true")))
	if isScalar(mm.Elem()) {
		vals := x.hget(st.H, vk)
		x.hset(st, vk, store(vals, m, store(sel(vals, m), k, x.scalar(v))))
	} else {
		x.storeStruct(st, mm.Elem(), x.melemObj(mt, m, k), v)
	}
}

func (x *Exec) stepMapUpdate(st *State, ins *ssa.MapUpdate) {
	m := x.val(st, ins.Map).(TV)
	x.safety(st, ins, "nilmap", not(eq(m.T, "0")))
	x.mapStore(st, ins.Map.Type(), m.T, x.scalar(x.val(st, ins.Key)), x.val(st, ins.Value))
}

func (x *Exec) mapDelete(st *State, mt types.Type, m, k string) {
	d, _, n := x.mapKeys(mt)
	dom := x.hget(st.H, d)
	had := and(not(eq(m, "0")), sel(sel(dom, m), k))
	sz := x.hget(st.H, n)
	x.hset(st, n, store(sz, m, ite(had, sub(sel(sz, m), "1"), sel(sz, m))))
	x.hset(st, d, store(dom, m, store(sel(dom, m), k, "false")))
}

func (x *Exec) mapLen(st *State, h Heap, mt types.Type, m string) string {
	_, _, n := x.mapKeys(mt)
	l := sel(x.hget(h, n), m)
	if st != nil {
		st.assume(and(le("0", l), implies(eq(m, "0"), eq(l, "0"))))
		x.mapCardFacts(st, h, mt, m)
	}
	return l
}

// mapCardFacts: size 0 <=> empty domain (the only cardinality fact used).
func (x *Exec) mapCardFacts(st *State, h Heap, mt types.Type, m string) {
	d, _, n := x.mapKeys(mt)
	ks := sortOf(under(mt).(*types.Map).Key())
	dom := sel(x.hget(h, d), m)
	st.assume(fmt.Sprintf("(=> (= %s 0) (forall ((k %s)) (! (not (select %s k)) :pattern ((select %s k)))))", sel(x.hget(h, n), m), ks, dom, dom))
}

func (x *Exec) stepRange(st *State, ins *ssa.Range) {
	if isString(ins.X.Type()) {
		panic(unsupported("range over string"))
	}
	m := x.val(st, ins.X).(TV)
	mt := ins.X.Type()
	ks := sortOf(under(mt).(*types.Map).Key())
	seen := x.reg.fresh("seen")
	x.reg.define(seen, "(Array "+ks+" Bool)", "((as const (Array "+ks+" Bool)) false)")
	st.iters[ins] = &iterState{m: m.T, seen: seen, mty: mt}
	x.setVal(st, ins, TV{"0", ins.Type()})
}

func (x *Exec) stepNext(st *State, ins *ssa.Next) {
	it := st.iters[ins.Iter]
	if it == nil {
		panic(unsupported("Next on unknown iterator"))
	}
	fr := st.fr
	mt := it.mty
	mm := under(mt).(*types.Map)
	d, _, _ := x.mapKeys(mt)
	ks := sortOf(mm.Key())
	dom := sel(x.hget(st.H, d), it.m)
	// done branch: every key currently in the map has been produced
	done := st.clone()
	done.assume(fmt.Sprintf("(forall ((k %s)) (! (=> (select %s k) (select %s k)) :pattern ((select %s k))))", ks, dom, it.seen, dom))
	done.assume(implies(eq(it.m, "0"), "true"))
	tt := ins.Type().(*types.Tuple)
	done.fr.vals[ins] = TU{TV{"false", types.Typ[types.Bool]}, x.zeroVal(tt.At(1).Type()), x.zeroVal(tt.At(2).Type())}
	done.fr.idx++
	x.work = append(x.work, done)
	// yield branch
	k := x.freshInt("key")
	if ks == "Bool" {
		panic(unsupported("bool map key"))
	}
	st.assume(not(eq(it.m, "0")))
	st.assume(sel(dom, k))
	st.assume(not(sel(it.seen, k)))
	st.assume(rangeFact(mm.Key(), k))
	val, _ := x.mapLoad(st, st.H, mt, it.m, k)
	ns := x.reg.fresh("seen")
	x.reg.define(ns, "(Array "+ks+" Bool)", store(it.seen, k, "true"))
	st.iters[ins.Iter].seen = ns
	fr.vals[ins] = TU{TV{"true", types.Typ[types.Bool]}, TV{k, mm.Key()}, val}
	fr.names["$key"] = TV{k, mm.Key()}
	fr.idx++
}

// ---------- control flow ----------

func (x *Exec) enter(st *State, from, to *ssa.BasicBlock) {
	fr := st.fr
	st.trail = append(st.trail, fmt.Sprintf("%d", to.Index))
	if li := x.loopInfo(fr.fn); li != nil {
		if lp, ok := li.byHeader[to]; ok {
			if !x.atLoopHeader(st, lp, from) {
				return
			}
			fr.block, fr.prev, fr.idx = to, from, 0
			x.skipPhis(st)
			return
		}
	}
	// phi assignment (parallel)
	x.assignPhis(st, from, to, nil)
	fr.block, fr.prev, fr.idx = to, from, 0
	x.skipPhis(st)
}

func (x *Exec) skipPhis(st *State) {
	fr := st.fr
	for fr.idx < len(fr.block.Instrs) {
		if _, ok := fr.block.Instrs[fr.idx].(*ssa.Phi); !ok {
			break
		}
		fr.idx++
	}
}

func predIndex(from, to *ssa.BasicBlock) int {
	for i, p := range to.Preds {
		if p == from {
			return i
		}
	}
	panic("internal: not a predecessor")
}

func (x *Exec) assignPhis(st *State, from, to *ssa.BasicBlock, override map[*ssa.Phi]Val) {
	fr := st.fr
	var phis []*ssa.Phi
	var vals []Val
	for _, in := range to.Instrs {
		ph, ok := in.(*ssa.Phi)
		if !ok {
			break
		}
		phis = append(phis, ph)
		if override != nil {
			vals = append(vals, override[ph])
		} else {
			vals = append(vals, x.val(st, ph.Edges[predIndex(from, to)]))
		}
	}
	for i, ph := range phis {
		fr.vals[ph] = vals[i]
		if ph.Comment != "" {
			fr.names[ph.Comment] = vals[i]
		}
	}
}

func (x *Exec) doReturn(st *State, res []Val) {
	fr := st.fr
	switch fr.kind {
	case fkTop:
		x.finish(st, res)
		st.dead = true
	case fkInline:
		p := fr.parent
		st.fr = p
		if call, ok := fr.callSite.(ssa.Value); ok {
			switch len(res) {
			case 0:
				p.vals[call] = nil
			case 1:
				p.vals[call] = res[0]
			default:
				p.vals[call] = TU(res)
			}
		}
		p.idx++
	case fkDefer:
		st.fr = fr.parent // re-executes RunDefers for the remaining deferred calls
	case fkCallback:
		st.fr = fr.parent
		cb := fr.aux.(*pendingSpecCall)
		var r Val
		if len(res) == 1 {
			r = res[0]
		} else if len(res) > 1 {
			r = TU(res)
		}
		x.finishSpecCall(st, cb, r)
	}
}

func isContextType(t types.Type) bool {
	n, ok := t.(*types.Named)
	return ok && n.Obj().Pkg() != nil && n.Obj().Pkg().Path() == "context" && n.Obj().Name() == "Context"
}
