package vc

// Loops: natural-loop detection on the SSA CFG, invariant init/keep obligations,
// havoc of the loop-modified state, termination variants.

import (
	"go/token"
	"fmt"
	"go/types"
	"sort"
	"strings"

	"golang.org/x/tools/go/ssa"
)

type loop struct {
	header  *ssa.BasicBlock
	blocks  map[*ssa.BasicBlock]bool
	ordinal int
}

type loopInfo struct {
	byHeader map[*ssa.BasicBlock]*loop
}

func (x *Exec) loopInfo(fn *ssa.Function) *loopInfo {
	if li, ok := x.loops[fn]; ok {
		return li
	}
	li := &loopInfo{byHeader: map[*ssa.BasicBlock]*loop{}}
	for _, b := range fn.Blocks {
		for _, s := range b.Succs {
			if s.Dominates(b) { // back edge b -> s
				lp := li.byHeader[s]
				if lp == nil {
					lp = &loop{header: s, blocks: map[*ssa.BasicBlock]bool{s: true}}
					li.byHeader[s] = lp
				}
				// natural loop: nodes reaching b without passing through s
				stack := []*ssa.BasicBlock{b}
				for len(stack) > 0 {
					n := stack[len(stack)-1]
					stack = stack[:len(stack)-1]
					if lp.blocks[n] {
						continue
					}
					lp.blocks[n] = true
					stack = append(stack, n.Preds...)
				}
			}
		}
	}
	var hs []*ssa.BasicBlock
	for h := range li.byHeader {
		hs = append(hs, h)
	}
	sort.Slice(hs, func(i, j int) bool { return hs[i].Index < hs[j].Index })
	for i, h := range hs {
		li.byHeader[h].ordinal = i + 1
	}
	x.loops[fn] = li
	return li
}

// atLoopHeader handles arrival at a loop header; returns false if the path ends here.
func (x *Exec) atLoopHeader(st *State, lp *loop, from *ssa.BasicBlock) bool {
	fr := st.fr
	ls := x.P.loopSpec(x, st, fr, lp)
	if ls == nil {
		panic(unsupported(fmt.Sprintf("loop #%d of %s has no invariant", lp.ordinal, x.loopKey(st, fr))))
	}
	keyName := fmt.Sprintf("loop%d", lp.ordinal)
	if fr.fn != x.top {
		keyName = fmt.Sprintf("loop%d@%s", lp.ordinal, fnShort(fr.fn))
	}
	back := lp.blocks[from] && lp.header.Dominates(from)
	// bind phi values of this edge
	x.assignPhis(st, from, lp.header, nil)
	env := x.frameEnv(st)
	if back {
		for _, c := range ls.Inv {
			g := x.evalBool(env, c.E)
			x.oblige(st, keyName+":keep:"+c.Label, "invariant", c.Src, g)
			st.assume(g) // cut: later clauses are proved under the earlier ones
		}
		if ls.Decreases != nil {
			v0 := fr.variant[lp.header.Index]
			v1 := x.evalInt(env, ls.Decreases)
			x.oblige(st, keyName+":decreases", "decreases", "", and(le("0", v0), lt(v1, v0)))
		}
		for _, k := range x.frameKeys(st, fr, lp, ls) {
			if g := x.frameGoal(st, k); g != "" {
				x.oblige(st, keyName+":keep:frame:"+k, "frame", "implicit invariant: not in the function's modifies clause, so unchanged on every object that existed at entry", g)
			}
		}
		st.dead = true
		return false
	}
	for _, c := range ls.Inv {
		x.oblige(st, keyName+":init:"+c.Label, "invariant", c.Src, x.evalBool(env, c.E))
	}
	// implicit frame invariants: a heap array the loop may write but the function's modifies clause does not
	// list must agree with its entry value on every object that existed at entry, before and after every iteration
	fkeys := x.frameKeys(st, fr, lp, ls)
	for _, k := range fkeys {
		if g := x.frameGoal(st, k); g != "" {
			x.oblige(st, keyName+":init:frame:"+k, "frame", "implicit invariant (frame)", g)
		}
	}
	// havoc: phis, modified heap, iterators
	override := map[*ssa.Phi]Val{}
	for _, in := range lp.header.Instrs {
		ph, ok := in.(*ssa.Phi)
		if !ok {
			break
		}
		override[ph] = x.freshVal(st, ph.Type(), "loop."+ph.Comment)
	}
	x.assignPhis(st, from, lp.header, override)
	w := x.freshInt("alloc")
	st.assume(le(st.alloc, w))
	st.alloc = w
	mods, all := x.loopMods(st, fr, lp)
	before := st.H.copy()
	if all {
		st.H = Heap{M: map[string]string{}, Epoch: x.P.nextEpoch()}
	} else {
		for _, p := range ls.Modifies {
			for k := range x.patternKeys(p, x.P.typeCtxFor(nil, fr.fn)) {
				mods[k] = true
			}
		}
		for _, k := range sortedKeys(mods) {
			if strings.HasPrefix(k, "extern!") {
				continue
			}
			x.havocKey(st, k)
			if strings.HasPrefix(k, "C%") && !mods["extern!"+k] {
				// only variables of this function (and of inlined callees) are assigned in the loop: every cell
				// that existed when the function was entered keeps its content
				x.useTop()
				st.assume(fmt.Sprintf("(forall ((o!c Int)) (! (=> (<= (top o!c) |alloc@0|) (= (select %s o!c) (select %s o!c))) :pattern ((select %s o!c))))",
					x.hget(st.H, k), x.hget(before, k), x.hget(st.H, k)))
			}
		}
	}
	// variables captured by closures live in heap cells; one that is assigned exactly once, in the entry
	// block of its function (a spilled parameter, a `:=` before the loop), keeps its value through the loop
	if !all {
		type cellv struct {
			al  *ssa.Alloc
			ref string
		}
		var cells []cellv
		for f := fr; f != nil; f = f.parent {
			for v, val := range f.vals {
				al, ok := v.(*ssa.Alloc)
				if !ok || !x.writeOnce(al) {
					continue
				}
				if tv, ok := val.(TV); ok {
					cells = append(cells, cellv{al, tv.T})
				}
			}
		}
		sort.Slice(cells, func(i, j int) bool {
			if cells[i].al.Pos() != cells[j].al.Pos() {
				return cells[i].al.Pos() < cells[j].al.Pos()
			}
			return cells[i].ref < cells[j].ref
		})
		for _, c := range cells {
			t := deref(c.al.Type())
			if !isScalar(t) {
				continue
			}
			k := cellKey(t)
			if mods[k] {
				st.assume(eq(sel(x.hget(st.H, k), c.ref), sel(x.hget(before, k), c.ref)))
			}
		}
	}
	for _, b := range sortedBlocks(lp.blocks) {
		for _, in := range b.Instrs {
			if sto, ok := in.(*ssa.Store); ok {
				// a non-escaping local (defined outside the loop) assigned in the loop is loop-carried state
				root := sto.Addr
				for {
					if fa, ok := root.(*ssa.FieldAddr); ok {
						root = fa.X
						continue
					}
					break
				}
				if al, ok := root.(*ssa.Alloc); ok && !lp.blocks[al.Block()] {
					for f := fr; f != nil; f = f.parent {
						if _, isLocal := f.locals[al]; isLocal {
							f.locals[al] = x.freshVal(st, deref(al.Type()), "loop."+al.Comment)
							break
						}
					}
				}
			}
			if nx, ok := in.(*ssa.Next); ok {
				if it, ok := st.iters[nx.Iter]; ok {
					ks := sortOf(under(it.mty).(*types.Map).Key())
					s := x.reg.fresh("seen")
					x.reg.declare(s, "(Array "+ks+" Bool)")
					it.seen = s
				}
			}
		}
	}
	for _, k := range fkeys {
		if g := x.frameGoal(st, k); g != "" {
			st.assume(g)
		}
	}
	env = x.frameEnv(st)
	for _, c := range ls.Inv {
		st.assume(x.evalBool(env, c.E))
	}
	if ls.Decreases != nil {
		fr.variant[lp.header.Index] = x.evalInt(env, ls.Decreases)
	}
	st.trail = append(st.trail, "L")
	return true
}

func sortedBlocks(m map[*ssa.BasicBlock]bool) []*ssa.BasicBlock {
	var bs []*ssa.BasicBlock
	for b := range m {
		bs = append(bs, b)
	}
	sort.Slice(bs, func(i, j int) bool { return bs[i].Index < bs[j].Index })
	return bs
}

func (x *Exec) loopKey(st *State, fr *Frame) string {
	var parts []string
	for f := fr; f != nil; f = f.parent {
		parts = append([]string{fnShort(f.fn)}, parts...)
	}
	return strings.Join(parts, ">")
}

// ---------- modified-key analysis ----------

// loopMods: heap keys possibly written by the loop body (conservative), or all=true.
func (x *Exec) loopMods(st *State, fr *Frame, lp *loop) (map[string]bool, bool) {
	out := map[string]bool{}
	all := false
	for _, b := range sortedBlocks(lp.blocks) {
		for _, in := range b.Instrs {
			if x.instrMods(st, fr, in, out) {
				all = true
			}
		}
	}
	return out, all
}

// instrMods adds the keys instruction `in` may write; returns true for "everything".
func (x *Exec) instrMods(st *State, fr *Frame, in ssa.Instruction, out map[string]bool) bool {
	seen := map[string]bool{}
	switch in := in.(type) {
	case *ssa.Store:
		root := in.Addr
		for {
			if fa, ok := root.(*ssa.FieldAddr); ok {
				root = fa.X
				continue
			}
			break
		}
		if al, ok := root.(*ssa.Alloc); ok && !isArray(deref(al.Type())) && !x.escapes(al) {
			return false // register local, no heap effect
		}
		x.addrMods(in.Addr, out)
	case *ssa.MapUpdate:
		x.mapContentKeys(in.Map.Type(), out, seen)
	case *ssa.Alloc:
		t := deref(in.Type())
		if !isArray(t) && !x.escapes(in) {
			return false
		}
		if at, ok := under(t).(*types.Array); ok {
			x.elemKeys(at.Elem(), out, seen)
		} else if isStruct(t) {
			x.leafKeys(t, "", out, seen)
		} else {
			x.leafKeysAt(cellKey(t), t, out, seen)
		}
	case *ssa.MakeSlice:
		x.elemKeys(under(in.Type()).(*types.Slice).Elem(), out, seen)
	case *ssa.MakeMap:
		x.mapContentKeys(in.Type(), out, seen)
	case *ssa.MakeInterface:
		t := in.X.Type()
		if isStruct(t) {
			x.leafKeys(t, "", out, seen)
		} else if isSlice(t) || isArray(t) {
			x.leafKeysAt(cellKey(t), t, out, seen)
		}
	case *ssa.Convert:
		if isString(in.X.Type()) && isSlice(in.Type()) {
			x.elemKeys(under(in.Type()).(*types.Slice).Elem(), out, seen)
		}
	case *ssa.Call:
		return x.callMods(st, fr, &in.Call, out)
	case *ssa.Defer:
		return x.callMods(st, fr, &in.Call, out)
	case *ssa.Go:
		return false
	}
	return false
}

func (x *Exec) addrMods(addr ssa.Value, out map[string]bool) {
	seen := map[string]bool{}
	switch a := addr.(type) {
	case *ssa.FieldAddr:
		structT := deref(a.X.Type())
		fld := under(structT).(*types.Struct).Field(a.Field)
		x.leafKeysAt(fieldKey(structT, fld.Name()), fld.Type(), out, seen)
	case *ssa.IndexAddr:
		var elem types.Type
		switch u := under(a.X.Type()).(type) {
		case *types.Slice:
			elem = u.Elem()
		case *types.Pointer:
			elem = under(u.Elem()).(*types.Array).Elem()
		}
		x.elemKeys(elem, out, seen)
	default:
		t := deref(addr.Type())
		if isStruct(t) {
			x.leafKeys(t, "", out, seen)
		} else if at, ok := under(t).(*types.Array); ok {
			x.elemKeys(at.Elem(), out, seen)
		} else {
			tmp := map[string]bool{}
			x.leafKeysAt(cellKey(t), t, tmp, seen)
			local := false
			switch addr.(type) {
			case *ssa.Alloc, *ssa.FreeVar:
				local = true // a variable of this function or of a lexically enclosing one: its cell was allocated after entry
			}
			for k := range tmp {
				out[k] = true
				if !local {
					out["extern!"+k] = true // written through a pointer of unknown origin
				}
			}
		}
	}
}

func (x *Exec) callMods(st *State, fr *Frame, c *ssa.CallCommon, out map[string]bool) bool {
	seen := map[string]bool{}
	if b, ok := c.Value.(*ssa.Builtin); ok && !c.IsInvoke() {
		switch b.Name() {
		case "append", "copy":
			x.elemKeys(under(c.Args[0].Type()).(*types.Slice).Elem(), out, seen)
		case "delete", "clear":
			if isMap(c.Args[0].Type()) {
				x.mapContentKeys(c.Args[0].Type(), out, seen)
			}
		}
		return false
	}
	if c.IsInvoke() {
		spec := x.P.ifaceSpec(c.Value.Type(), c.Method)
		if spec == nil {
			return false // unspecified external behaviour: assumed not to touch the heap under contract
		}
		return x.specMods(spec, nil, out)
	}
	var fn *ssa.Function
	var bound *CL
	if f := c.StaticCallee(); f != nil {
		fn = f
	} else if fr != nil {
		// dynamic: try the frame's current value
		for f := fr; f != nil && fn == nil; f = f.parent {
			if v, ok := f.vals[c.Value]; ok {
				if cl, ok := v.(CL); ok {
					fn, bound = cl.Fn, &cl
				}
			}
		}
	}
	// function-typed arguments: what the callee does through them is what the argument closures do
	argMods := func() bool {
		all := false
		for _, a := range c.Args {
			if _, isSig := under(a.Type()).(*types.Signature); !isSig {
				continue
			}
			var af *ssa.Function
			switch a := a.(type) {
			case *ssa.MakeClosure:
				af, _ = a.Fn.(*ssa.Function)
			case *ssa.Function:
				af = a
			}
			if af == nil {
				all = true
				continue
			}
			m, al := x.fnMods(af)
			for k := range m {
				out[k] = true
			}
			if al {
				all = true
			}
		}
		return all
	}
	if fn == nil {
		switch v := c.Value.(type) {
		case *ssa.Call:
			// the value called is the result of a function of this module that returns closures of its own
			// (range-over-func iterators): its body and closures, plus the closures handed to it
			if f := v.Call.StaticCallee(); f != nil && f.Blocks != nil && x.P.inModule(f) && x.P.funcSpec(f) == nil {
				m, all := x.fnMods(f)
				for k := range m {
					out[k] = true
				}
				if argMods() {
					all = true
				}
				return all
			}
		case *ssa.Parameter:
			if fr == nil {
				// static summary of a function calling its function-typed parameter: accounted for at the
				// call site that passes the closure (argMods)
				return false
			}
		}
		// a function-typed field or a value of a named function type with a contract of its own (see invoke)
		if u, ok := c.Value.(*ssa.UnOp); ok && u.Op == token.MUL {
			if fa, ok := u.X.(*ssa.FieldAddr); ok {
				if n, ok := deref(fa.X.Type()).(*types.Named); ok {
					fld := under(n).(*types.Struct).Field(fa.Field)
					if spec := x.P.fieldFuncSpec(n, fld.Name()); spec != nil {
						return x.specMods(spec, nil, out)
					}
				}
			}
		}
		if n, ok := types.Unalias(c.Value.Type()).(*types.Named); ok {
			if _, isSig := n.Underlying().(*types.Signature); isSig {
				if spec := x.P.fieldFuncSpec(n, "call"); spec != nil {
					return x.specMods(spec, nil, out)
				}
			}
		}
		return true
	}
	_ = bound
	if argMods() {
		return true
	}
	if fn.String() == "fmt.Errorf" {
		return false
	}
	if spec := x.P.funcSpec(fn); spec != nil && !spec.Transparent {
		return x.specMods(spec, fn, out)
	}
	if fn.Blocks == nil || !(x.P.inModule(fn) || (x.P.funcSpec(fn) != nil)) {
		return false
	}
	m, all := x.fnMods(fn)
	for k := range m {
		out[k] = true
	}
	return all
}

func (x *Exec) specMods(spec *FuncSpec, fn *ssa.Function, out map[string]bool) bool {
	tctx := x.P.typeCtxFor(spec, fn)
	for _, p := range spec.Modifies {
		if strings.HasPrefix(p, "callback:") {
			return true
		}
		if p == "*" {
			return true
		}
		for k := range x.patternKeys(p, tctx) {
			out[k] = true
			if strings.HasPrefix(k, "C%") {
				out["extern!"+k] = true
			}
		}
	}
	return false
}

var fnModAll = map[*ssa.Function]bool{}

// fnMods: keys written by fn and its (inlined) callees, memoised.
func (x *Exec) fnMods(fn *ssa.Function) (map[string]bool, bool) {
	if m, ok := x.modMemo[fn]; ok {
		return m, fnModAll[fn]
	}
	if x.modBusy[fn] {
		return map[string]bool{}, true
	}
	x.modBusy[fn] = true
	out := map[string]bool{}
	all := false
	for _, b := range fn.Blocks {
		for _, in := range b.Instrs {
			if x.instrMods(nil, nil, in, out) {
				all = true
			}
		}
	}
	for _, af := range fn.AnonFuncs {
		m, a := x.fnMods(af)
		for k := range m {
			out[k] = true
		}
		if a {
			all = true
		}
	}
	delete(x.modBusy, fn)
	x.modMemo[fn] = out
	fnModAll[fn] = all
	return out, all
}

// writeOnce: the variable is assigned exactly once, in the entry block of its function, and otherwise only
// read -- directly or through closures that capture it.
func (x *Exec) writeOnce(al *ssa.Alloc) bool {
	if v, ok := x.onceMemo[al]; ok {
		return v
	}
	stores := 0
	var ok func(v ssa.Value, top bool) bool
	ok = func(v ssa.Value, top bool) bool {
		refs := v.Referrers()
		if refs == nil {
			return false
		}
		for _, r := range *refs {
			switch r := r.(type) {
			case *ssa.DebugRef:
			case *ssa.UnOp:
				if r.Op != token.MUL {
					return false
				}
			case *ssa.Store:
				if r.Val == v || !top || r.Block().Index != 0 {
					return false
				}
				stores++
			case *ssa.MakeClosure:
				fn, isFn := r.Fn.(*ssa.Function)
				if !isFn {
					return false
				}
				for i, b := range r.Bindings {
					if b == v && !ok(fn.FreeVars[i], false) {
						return false
					}
				}
			default:
				return false
			}
		}
		return true
	}
	res := ok(al, true) && stores == 1
	if x.onceMemo == nil {
		x.onceMemo = map[*ssa.Alloc]bool{}
	}
	x.onceMemo[al] = res
	return res
}

// allowedKeys: the heap arrays the contract of the function under verification lets it modify (nil: all).
func (x *Exec) allowedKeys() (map[string]bool, bool) {
	if x.allowDone {
		return x.allowed, x.allowAll
	}
	x.allowDone = true
	x.allowed = map[string]bool{}
	if x.spec == nil || x.spec.Trusted || x.spec.Lemma {
		x.allowAll = true
		return x.allowed, true
	}
	tctx := x.P.typeCtxFor(x.spec, x.top)
	for _, p := range x.spec.Modifies {
		if p == "*" {
			x.allowAll = true
			return x.allowed, true
		}
		if strings.HasPrefix(p, "callback:") {
			continue
		}
		for k := range x.patternKeys(p, tctx) {
			x.allowed[k] = true
		}
	}
	return x.allowed, false
}

// frameKeys: arrays the loop may write that the function's contract does not allow it to modify.
func (x *Exec) frameKeys(st *State, fr *Frame, lp *loop, ls *LoopSpec) []string {
	allowed, all := x.allowedKeys()
	if all {
		return nil
	}
	mods, allMod := x.loopMods(st, fr, lp)
	if allMod {
		return nil
	}
	for _, p := range ls.Modifies {
		for k := range x.patternKeys(p, x.P.typeCtxFor(nil, fr.fn)) {
			mods[k] = true
		}
	}
	var ks []string
	for _, k := range sortedKeys(mods) {
		if strings.HasPrefix(k, "extern!") || allowed[k] {
			continue
		}
		if strings.HasPrefix(k, "C%") && !mods["extern!"+k] {
			continue // only cells of local variables are assigned: holds by the analysis that established that
		}
		ks = append(ks, k)
	}
	return ks
}

// frameGoal: array k agrees with its entry value on every object that existed at entry ("" when trivially so).
func (x *Exec) frameGoal(st *State, k string) string {
	now := x.hget(st.H, k)
	was := x.hget(Heap{}, k)
	if now == was {
		return ""
	}
	x.useTop()
	return fmt.Sprintf("(forall ((o!f Int)) (! (=> (<= (top o!f) |alloc@0|) (= (select %s o!f) (select %s o!f))) :pattern ((select %s o!f))))", now, was, now)
}
