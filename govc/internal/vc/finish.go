package vc

// Function exit: ghost updates, postconditions; and the driver that verifies one function.

import (
	"fmt"
	"go/types"
	"sort"
	"strings"

	"golang.org/x/tools/go/ssa"
)

func (x *Exec) finish(st *State, res []Val) {
	fn := x.top
	names := map[string]Val{}
	for k, v := range x.entry {
		names[k] = v
	}
	var r Val
	switch len(res) {
	case 0:
	case 1:
		r = res[0]
	default:
		r = TU(res)
	}
	bindResults(names, r, fn.Signature, fn)
	env := &Env{x: x, st: st, names: names, entryNames: x.entry, cur: st.H, old: Heap{}, tctx: x.P.typeCtxFor(x.spec, fn), alloc: "|alloc@0|"}
	ghostKeys := map[string]bool{}
	for _, ga := range x.spec.Ghost {
		before := st.H.copy()
		x.ghostStore(st, env, ga)
		for k, v := range st.H.M {
			if before.M[k] != v {
				ghostKeys[k] = true // written by the contract's own ghost statements: call sites replay them
			}
		}
		env.cur = st.H
	}
	x.retPaths++
	if len(x.coverPC) < 13 {
		x.coverPC = append(x.coverPC, append([]string(nil), st.pc...))
	}
	for _, c := range x.spec.Ensures {
		g := x.evalBool(env, c.E)
		x.oblige(st, "ensures:"+c.Label, "ensures", c.Src, g)
		st.assume(g) // cut: a clause proved on this path may be used for the clauses that follow it
	}
	x.frameCheck(st, env, ghostKeys)
	if len(x.spec.ExitAssert) > 0 {
		lenv := *env
		lenv.frame = st.fr // locals of the function are visible; a clause naming a local not yet defined on this path is vacuous here
		for _, c := range x.spec.ExitAssert {
			g, ok := x.tryEvalBool(&lenv, c.E)
			if !ok {
				g = "true"
			}
			x.oblige(st, "exit:"+c.Label, "ensures", c.Src, g)
		}
	}
}

func (x *Exec) tryEvalBool(env *Env, e Expr) (t string, ok bool) {
	defer func() {
		if r := recover(); r != nil {
			if se, isSpec := r.(specErr); isSpec && strings.Contains(se.msg, "unknown name") {
				t, ok = "", false
				return
			}
			panic(r)
		}
	}()
	return x.evalBool(env, e), true
}

// FuncResult is the outcome of generating the obligations of one function.
type FuncResult struct {
	Func      string // display name
	ID        string // full name
	Spec      *FuncSpec
	Obls      []*Obligation
	Reg       *Registry
	Paths     int
	RetPaths  int
	Fail      string // non-empty: function is outside the verifiable subset (reason)
	Warnings  []string
	Trusted   []string
	Unspec    []string
	Inlined   []string
	Relied    []string
	CoverPC   [][]string
	Transp    bool
	Observed  map[string]string
}

// VerifyFunc generates all obligations of fn against spec.
func VerifyFunc(p *Program, fn *ssa.Function, spec *FuncSpec, observe map[string]string) (res *FuncResult) {
	_, short, full := funcForms(fn)
	// name counters restart for every function: the text of a function's queries (and so the solvers'
	// behaviour on them, and the answer cache) must not depend on what was verified before it
	p.qcount, p.epoch = 0, 0
	x := newExec(p, fn, spec)
	x.Observe = observe
	res = &FuncResult{Func: short, ID: full, Spec: spec, Reg: x.reg}
	if len(fn.TypeArgs()) > 0 {
		var as []string
		for _, t := range fn.TypeArgs() {
			as = append(as, types.TypeString(t, shortQual))
		}
		res.Func += "[" + strings.Join(as, ",") + "]"
	}
	defer func() {
		if r := recover(); r != nil {
			switch e := r.(type) {
			case unsupportedErr:
				res.Fail = e.Error()
			case specErr:
				res.Fail = e.Error()
			default:
				panic(r)
			}
		}
		res.Paths, res.RetPaths = x.paths, x.retPaths
		for _, n := range x.order {
			res.Obls = append(res.Obls, x.obls[n])
		}
		if spec != nil && res.Fail == "" {
			for _, h := range spec.Hints {
				when := "before"
				if h.After {
					when = "after"
				}
				n := fmt.Sprintf("hint:%s:%s#%d:%s", when, h.Callee, h.K, h.C.Label)
				if _, ok := x.obls[n]; !ok && res.Fail == "" {
					res.Fail = "hint bound to no call site: " + n
				}
			}
		}
		res.Warnings = keysOf(x.warns)
		res.Trusted = keysOf(x.trusted)
		res.Unspec = keysOf(x.unspec)
		res.Inlined = keysOf(x.inlined)
		res.Relied = keysOf(x.calledBy)
		res.CoverPC = x.coverPC
		res.Observed = x.obsTerms
		if x.fail != nil && res.Fail == "" {
			res.Fail = x.fail.Error()
		}
	}()
	x.Run()
	return res
}

func keysOf(m map[string]bool) []string {
	var ks []string
	for k := range m {
		ks = append(ks, k)
	}
	sort.Strings(ks)
	return ks
}

// Query renders one path query as an SMT-LIB script.
func (r *FuncResult) Query(q PathQuery, wantModel bool) string {
	var sb strings.Builder
	if wantModel {
		sb.WriteString("(set-option :produce-models true)\n")
	}
	sb.WriteString("(set-logic ALL)\n")
	texts := append(append([]string(nil), q.PC...), q.Goal)
	var obsNames []string
	if wantModel {
		for n := range r.Observed {
			obsNames = append(obsNames, n)
		}
		sort.Strings(obsNames)
		for _, n := range obsNames {
			texts = append(texts, r.Observed[n])
		}
	}
	for _, d := range r.Reg.closure(texts) {
		sb.WriteString(d)
		sb.WriteString("\n")
	}
	for _, c := range q.PC {
		sb.WriteString("(assert " + c + ")\n")
	}
	sb.WriteString("(assert (not " + q.Goal + "))\n(check-sat)\n")
	if wantModel {
		for _, n := range obsNames {
			sb.WriteString(fmt.Sprintf("(echo \"obs %s\")\n(eval %s)\n", n, r.Observed[n]))
		}
	}
	return sb.String()
}

// SlicedQuery keeps only the hypotheses in the goal's cone of influence (symbol overlap, `rounds`
// steps, ignoring symbols that occur in a large share of the hypotheses).  Proving the goal from
// fewer hypotheses is still a proof; when the sliced query is not `unsat` the full one is tried.
func (r *FuncResult) SlicedQuery(q PathQuery, rounds int) string {
	type hyp struct {
		text string
		syms []string
		in   bool
	}
	hs := make([]hyp, len(q.PC))
	freq := map[string]int{}
	for i, c := range q.PC {
		hs[i] = hyp{text: c, syms: symbolsOf(c)}
		for _, s := range hs[i].syms {
			freq[s]++
		}
	}
	common := func(s string) bool {
		return s == "top" || strings.HasPrefix(s, "|alloc") || freq[s]*4 > len(q.PC)+8
	}
	S := map[string]bool{}
	for _, s := range symbolsOf(q.Goal) {
		S[s] = true
	}
	for i := range hs {
		// short ground facts (branch conditions, definitions of fresh values) are always kept
		if len(hs[i].text) < 160 && !strings.Contains(hs[i].text, "forall") {
			hs[i].in = true
		}
	}
	for round := 0; round < rounds; round++ {
		var add []string
		for i := range hs {
			if hs[i].in && round > 0 {
				continue
			}
			hit := false
			for _, s := range hs[i].syms {
				if S[s] && !common(s) {
					hit = true
					break
				}
			}
			if hit || hs[i].in {
				if !hs[i].in {
					hs[i].in = true
				}
				add = append(add, hs[i].syms...)
			}
		}
		for _, s := range add {
			S[s] = true
		}
	}
	var pc []string
	for _, h := range hs {
		if h.in {
			pc = append(pc, h.text)
		}
	}
	return r.Query(PathQuery{PC: pc, Goal: q.Goal, Trail: q.Trail}, false)
}

// CoverQuery: satisfiability of a path condition (vacuity check).
func (r *FuncResult) CoverQuery(pc []string) string {
	var sb strings.Builder
	sb.WriteString("(set-logic ALL)\n")
	for _, d := range r.Reg.closure(pc) {
		sb.WriteString(d + "\n")
	}
	for _, c := range pc {
		sb.WriteString("(assert " + c + ")\n")
	}
	sb.WriteString("(check-sat)\n")
	return sb.String()
}

func (o *Obligation) String() string { return fmt.Sprintf("%s (%d path queries)", o.Name, len(o.Queries)) }

// ShortName is the display name of a function (package-qualified, instantiation in brackets).
func ShortName(fn *ssa.Function) string {
	_, short, _ := funcForms(fn)
	if len(fn.TypeArgs()) > 0 {
		var as []string
		for _, t := range fn.TypeArgs() {
			as = append(as, types.TypeString(t, shortQual))
		}
		short += "[" + strings.Join(as, ",") + "]"
	}
	return short
}

// CloseOpaque drops the definitional axioms of opaque spec predicates from a query, so that their
// applications are plain uninterpreted atoms.  With narrow set, the definitions of the versions the goal
// mentions and of the version just before each of them are kept (for a goal without opaque atoms: the
// newest version only) -- the step "the predicate survives this one heap change" needs exactly those.
// Dropping hypotheses is sound: a proof from fewer hypotheses is still a proof.
func CloseOpaque(query string, narrow bool) string {
	if !strings.Contains(query, "(! (= (|op:") {
		return query
	}
	lines := strings.Split(query, "\n")
	keep := map[string]bool{}
	if narrow {
		goal := ""
		for _, ln := range lines {
			if strings.HasPrefix(ln, "(assert (not ") {
				goal = ln
			}
		}
		vers := map[string][]int{} // predicate name -> versions present
		for _, ln := range lines {
			if strings.HasPrefix(ln, "(declare-fun |op:") {
				n, v := opSym(ln[len("(declare-fun |"):])
				vers[n] = append(vers[n], v)
			}
		}
		inGoal := map[string][]int{}
		for i := 0; i+4 < len(goal); i++ {
			if goal[i] == '|' && strings.HasPrefix(goal[i+1:], "op:") {
				n, v := opSym(goal[i+1:])
				inGoal[n] = append(inGoal[n], v)
			}
		}
		for n, vs := range vers {
			gs := inGoal[n]
			if len(gs) == 0 {
				m := -1
				for _, v := range vs {
					if v > m {
						m = v
					}
				}
				keep[fmt.Sprintf("op:%s#%d", n, m)] = true
				continue
			}
			for _, g := range gs {
				keep[fmt.Sprintf("op:%s#%d", n, g)] = true
				m := -1
				for _, v := range vs {
					if v < g && v > m {
						m = v
					}
				}
				if m >= 0 {
					keep[fmt.Sprintf("op:%s#%d", n, m)] = true
				}
			}
		}
	}
	var sb strings.Builder
	for _, ln := range lines {
		if strings.HasPrefix(ln, "(assert") {
			if j := strings.Index(ln, "(! (= (|op:"); j >= 0 {
				n, v := opSym(ln[j+len("(! (= (|"):])
				if !keep[fmt.Sprintf("op:%s#%d", n, v)] {
					continue
				}
			} else if narrow && !strings.HasPrefix(ln, "(assert (not ") && mentionsOtherOp(ln, keep) {
				// narrow: facts about other versions of the predicate only feed instantiation chains
				continue
			}
		}
		sb.WriteString(ln)
		sb.WriteString("\n")
	}
	return sb.String()
}

// opSym parses "op:name#k|..." into (name, k).
func opSym(s string) (string, int) {
	s = strings.TrimPrefix(s, "op:")
	end := strings.Index(s, "|")
	if end < 0 {
		end = len(s)
	}
	s = s[:end]
	i := strings.LastIndex(s, "#")
	if i < 0 {
		return s, -1
	}
	v := 0
	fmt.Sscanf(s[i+1:], "%d", &v)
	return s[:i], v
}

func mentionsOtherOp(ln string, keep map[string]bool) bool {
	for i := 0; i+4 < len(ln); i++ {
		if ln[i] == '|' && strings.HasPrefix(ln[i+1:], "op:") {
			n, v := opSym(ln[i+1:])
			if !keep[fmt.Sprintf("op:%s#%d", n, v)] {
				return true
			}
			i += 3
		}
	}
	return false
}

// frameCheck: the frame is proved, not assumed.  Every heap array the path has written (or a loop or a
// callee has havocked) and that the contract's `modifies` clause does not cover must agree with its entry
// value on every object that existed at entry -- callers keep what they know about those arrays.
func (x *Exec) frameCheck(st *State, env *Env, ghostKeys map[string]bool) {
	if x.spec.Trusted || x.spec.Lemma {
		return
	}
	allowed := map[string]bool{}
	for _, p := range x.spec.Modifies {
		if p == "*" {
			return
		}
		if strings.HasPrefix(p, "callback:") {
			continue
		}
		for k := range x.patternKeys(p, env.tctx) {
			allowed[k] = true
		}
	}
	if st.H.Epoch != 0 {
		x.oblige(st, "frame:everything", "frame", "a call or loop with unknown effects leaves no array to compare", "false")
		return
	}
	for _, k := range sortedKeys2(st.H.M) {
		if allowed[k] {
			continue // (ghost fields the contract's own ghost statements assign must be listed too: callers havoc only what `modifies` names)
		}
		if g := x.frameGoal(st, k); g != "" {
			x.oblige(st, "frame:"+k, "frame", "not in modifies: unchanged on every object that existed at entry", g)
		}
	}
}

func sortedKeys2(m map[string]string) []string {
	var ks []string
	for k := range m {
		ks = append(ks, k)
	}
	sort.Strings(ks)
	return ks
}
