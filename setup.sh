#!/bin/sh
# Build the verifier offline from files on disk only.
set -e
cd "$(dirname "$0")/govc"
export GOFLAGS=-mod=mod GOPROXY=off GOSUMDB=off GOTOOLCHAIN=local
cp "${VERIF_REPO:-/repo}/go.sum" ./go.sum 2>/dev/null || true
mkdir -p ../bin
go build -o ../bin/govc ./cmd/govc
echo "setup ok: $(../bin/govc version)"
